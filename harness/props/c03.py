"""C03 — Every spelling of a schema tag resolves to the same node and canonical forms.

The model (`Schema.find`, forms) is fed with vocabularies read from the bundled XML by our own reader
(harness/schema_xml.py); the implementation side is `HedTag(text, schema)` of the loaded schema.

Bulk stream (`run_bulk`): whole cells assembled from the generated spellings (groups, blanks, empty cells, `n/a`,
unknown tags) go through `df_util.convert_to_form` on a Series, on a DataFrame with a column subset, and through
`HedString.get_as_short()/get_as_long()`; the model side is `Schema.convertText` (`c03.convert`) and
`Schema.convertFrame` (`c03.convertdf`).  The direct oracle compares every converted cell with the text printed
from OUR reading of the XML (short = last component of the node's path, long = the path), not with another hed
function.
"""
import json

from harness import schema_xml

THEOREMS = [
    "HedVerif.C03.direct_hit",
    "HedVerif.C03.find_text",
    "HedVerif.C03.direct_hit_case",
    "HedVerif.C03.registered_forms_disjoint",
    "HedVerif.C03.walk_stops",
    "HedVerif.C03.remainder_verbatim",
    "HedVerif.C03.forms_roundtrip",
    "HedVerif.C03.namespace_ascii",
    # growth: soundness of registration, structural well-formedness, closed forms
    "HedVerif.Schema.register_sound_aux",
    "HedVerif.Schema.register_dups_spec",
    "HedVerif.C03.register_sound",
    "HedVerif.C03.treeClosed_iff_parents",
    "HedVerif.C03.wf_of_shortDistinct",
    "HedVerif.C03.dups_nil_of_shortDistinct",
    "HedVerif.C03.prefixes_known",
    "HedVerif.C03.key_prefix",
    "HedVerif.C03.extension_cases",
    "HedVerif.C03.extension_resolves",
    "HedVerif.C03.value_resolves",
    "HedVerif.C03.valueChild_of_tag",
    "HedVerif.C03.child_key",
    "HedVerif.C03.stop_transfer",
    "HedVerif.C03.forms_roundtrip_remainder",
    "HedVerif.C03.short_long_fixpoint",
    "HedVerif.C03.no_aliasing",
    # bulk conversion (df_util.convert_to_form, HedString.get_as_short/get_as_long)
    "HedVerif.Schema.joinSlash_splitSlash",
    "HedVerif.Schema.walk_inv",
    "HedVerif.Schema.found_inv",
    "HedVerif.C03.tag_fix",
    "HedVerif.C03.tagForm_valid",
    "HedVerif.C03.tagForm_tagForm",
    "HedVerif.C03.convert_render",
    "HedVerif.C03.convert_tree",
    "HedVerif.C03.convert_preserves_shape",
    "HedVerif.C03.convert_tagwise",
    "HedVerif.C03.convert_convert",
    "HedVerif.C03.convert_short_long",
    "HedVerif.C03.convert_idempotent",
    "HedVerif.C03.convert_unbalanced",
    "HedVerif.C03.convert_df_columns",
    "HedVerif.C03.convert_df_all",
    "HedVerif.C03.convert_df_keyerror",
    "HedVerif.C03.convert_series",
    "HedVerif.C03.legacy_walk_counterexample",
    # after fix bb9eaaf (a placeholder node is never an intermediate node): general-stop versions
    "HedVerif.Schema.walkGet_cases",
    "HedVerif.Schema.walkGet_some",
    "HedVerif.C03.whole_none_of_stop",
    "HedVerif.C03.extension_cases_gen",
    "HedVerif.C03.stop_transfer_walk",
    "HedVerif.C03.forms_roundtrip_remainder_gen",
    "HedVerif.C03.short_long_fixpoint_gen",
    "HedVerif.C03.get_none_of_interior_sharp",
    "HedVerif.C03.exBulkOK",
    "HedVerif.C03.foldLower_sharp",
]
BUDGET = {"quick": 900, "thorough": 3600}

QUICK_FULL = ["8.3.0"]
OTHERS = ["8.0.0", "8.1.0", "8.2.0", "score_1.0.0", "score_1.1.0", "score_2.0.0", "testlib_1.0.2",
          "testlib_2.0.0", "testlib_2.1.0", "testlib_3.0.0"]


KIND_NAMES = {}


_GENERATED = {}


def generated_xml(seed):
    """A generated schema ("... and in generated schemas"): bundled 8.3.0 with, planted deterministically from `seed`,
    named children - one value-taking, one plain with a child of its own - under value-taking nodes (so that a '#'
    child has siblings: loadable, although check_compliance objects), and deep chains under plain nodes."""
    if seed in _GENERATED:
        return _GENERATED[seed]
    import random
    import xml.etree.ElementTree as ET
    rng = random.Random(seed)
    root = ET.parse(schema_xml.bundled()["8.3.0"]).getroot()
    nodes = list(root.find("schema").iter("node"))

    def nm(n):
        return n.findtext("name")

    def add(parent, name, valued=False):
        e = ET.SubElement(parent, "node")
        ET.SubElement(e, "name").text = name
        if valued:
            h = ET.SubElement(e, "node")
            ET.SubElement(h, "name").text = "#"
            ET.SubElement(ET.SubElement(h, "attribute"), "name").text = "takesValue"
        return e

    valued = [n for n in nodes if nm(n) != "#" and any(nm(c) == "#" for c in n.findall("node"))]
    plain = [n for n in nodes if nm(n) != "#" and n not in valued]
    for k, n in enumerate(rng.sample(valued, 14)):
        add(n, f"Gen-valued-{seed}-{k}", valued=True)
        add(add(n, f"Gen-plain-{seed}-{k}"), f"Gen-deep-{seed}-{k}", valued=rng.random() < 0.5)
    for k, n in enumerate(rng.sample(plain, 8)):
        add(add(add(n, f"Gen-chain-a-{seed}-{k}"), f"Gen-chain-b-{seed}-{k}"), f"Gen-chain-c-{seed}-{k}", valued=True)
    _GENERATED[seed] = ET.tostring(root, encoding="unicode")
    return _GENERATED[seed]


def read_longs(name):
    """long names of the tags of a bundled schema, of several libraries merged (comma-separated) in load order, or of a
    generated schema (`gen:<seed>`)"""
    if name.startswith("gen:"):
        import os, tempfile
        fd, path = tempfile.mkstemp(suffix=".xml")
        try:
            with os.fdopen(fd, "w", encoding="utf-8") as f:
                f.write(generated_xml(int(name[4:])))
            return [t["long"] for t in schema_xml.read(path)["tags"]]
        finally:
            os.unlink(path)
    longs, have = [], set()
    for part in name.split(","):
        for t in schema_xml.read(schema_xml.bundled()[part])["tags"]:
            if t["long"] not in have:
                have.add(t["long"])
                longs.append(t["long"])
    return longs


def load_impl(name, ns=""):
    from hed.errors.error_types import ValidationErrors
    for k in ("NO_VALID_TAG_FOUND", "INVALID_PARENT_NODE", "HED_LIBRARY_UNMATCHED"):
        KIND_NAMES[getattr(ValidationErrors, k)] = k
    if name.startswith("gen:"):
        from hed.schema import from_string
        sch = from_string(generated_xml(int(name[4:])), schema_format=".xml")
        if ns:
            sch.set_schema_prefix(ns)
        return sch
    from hed import load_schema_version
    v = name if "_" not in name else name
    return load_schema_version(f"{ns}{v}" if ns else v)


def case_variants(rng, s):
    out = {s, s.lower(), s.upper()}
    out.add("".join(c.upper() if rng.random() < 0.5 else c.lower() for c in s))
    return sorted(out)


def impl_find(HedTag, schema, text):
    tag = HedTag(text, schema)
    issues = tag._calculate_to_canonical_forms(schema)
    if tag._schema_entry is None:
        i = issues[0] if issues else {}
        return {"err": KIND_NAMES.get(i.get("_kind"), i.get("_kind", "?")), "a": i.get("index_in_tag"),
                "b": i.get("index_in_tag_end")}
    return {"node": tag._schema_entry.name, "rem": tag._extension_value, "ns": tag.schema_namespace,
            "short": tag.short_tag, "long": tag.long_tag, "base": tag.base_tag, "short_base": tag.short_base_tag}


def canon_model(m):
    if "err" in m:
        if m["err"] == "HED_LIBRARY_UNMATCHED":
            return {"err": m["err"], "a": None, "b": None}
        return {"err": m["err"], "a": m["a"], "b": m["b"]}
    return m


def oracle(HedTag, schema, text, node_long, form, rem, ns, r, has_val):
    """the property's clauses on the implementation alone, for a spelling of a known node"""
    if "err" in r:
        return "spelling-of-schema-tag-not-resolved"
    want = node_long
    if rem and has_val:   # value child takes over when there is a remainder
        want = want + "/#"
    if r["node"] != want:
        return "resolved-to-other-node"
    if r["rem"] != rem:
        return "remainder-not-verbatim"
    for f in ("short", "long"):
        t2 = HedTag(r[f], schema)
        if t2._schema_entry is None or t2._schema_entry.name != r["node"]:
            return f"{f}-form-identifies-other-node"
        if t2.long_tag != r["long"]:
            return f"long({f}(t))!=long(t)"
        if t2.short_tag != r["short"]:
            return f"short({f}(t))!=short(t)"
    return None


# ------------------------------------------------------------------------------------- bulk conversion

FORMS = (("short", "short_tag"), ("long", "long_tag"))
SIG_INTERIOR = "C03-placeholder-followed-by-text"


def sig_of(text):
    """a return of the fixed defect bb9eaaf is reported under its signature"""
    return SIG_INTERIOR if "/#/" in text else None


def canonical(ns, long, rem):
    """(short, long) text of a spelling of node `long` with remainder `rem`, from OUR reading of the XML"""
    return ns + long.split("/")[-1] + rem, ns + long + rem


def render(items, which):
    """independent printing of a cell: children joined by ',', groups in parentheses, no blanks"""
    return ",".join(it[1][which] if it[0] == "t" else "(" + render(it[1], which) + ")" for it in items)


def depth_of(items):
    return max([0] + [1 + depth_of(it[1]) for it in items if it[0] == "g"])


def leaves(items):
    for it in items:
        if it[0] == "t":
            yield it[1]
        else:
            yield from leaves(it[1])


def _blank(rng):
    return " " * rng.choice((0, 0, 0, 1, 1, 2))


def gen_items(rng, pool, depth, maxn):
    items = []
    for _ in range(rng.randint(1, maxn)):
        if depth > 0 and rng.random() < 0.3:
            items.append(("g", [] if rng.random() < 0.06 else gen_items(rng, pool, depth - 1, 3)))
        else:
            items.append(("t", rng.choice(pool)))
    return items


def write_items(rng, items):
    parts = []
    for it in items:
        inner = it[1]["text"] if it[0] == "t" else "(" + (write_items(rng, it[1]) or _blank(rng)) + ")"
        parts.append(_blank(rng) + inner + _blank(rng))
    return ",".join(parts)


def build_pool(cases, ns, known_shorts):
    """leaf records {text, short, long} (expected forms known) and messy texts (model comparison and laws only)"""
    good, messy = [], []
    for text, long, form, rem, kind in cases:
        if kind in ("plain", "value"):
            sh, lg = canonical(ns, long, rem)
            good.append({"text": text, "short": sh, "long": lg, "kind": kind, "partial": "/" in form and form != long})
        elif kind in ("ext", "ext2"):
            if rem[1:].split("/")[0].casefold() in known_shorts:
                messy.append(text)   # the first extension term is a real child: a deeper node is the right answer
            else:
                sh, lg = canonical(ns, long, rem)
                good.append({"text": text, "short": sh, "long": lg, "kind": kind, "partial": "/" in form and form != long})
        elif kind in ("unknown", "wrong-ns"):
            # a tag that cannot be identified is left as written
            good.append({"text": text, "short": text, "long": text, "kind": kind, "partial": False})
        else:
            messy.append(text)
    return good, messy


def gen_cells(rng, good, messy, n):
    """[(text, items or None)]: items = the structure the text was written from (expected output known)"""
    cells = [("", []), ("n/a", [("t", {"text": "n/a", "short": "n/a", "long": "n/a", "kind": "n/a", "partial": False})]),
             ("   ", None), ("()", [("g", [])])]
    changed = [g for g in good if g["short"] != g["text"] or g["long"] != g["text"]]
    slashless = [g for g in changed if "/" not in g["text"]]
    placeholder = [g for g in good if "/#/" in g["text"]]
    while len(cells) < n:
        k = rng.random()
        if k < 0.04 and placeholder:
            # a placeholder followed by more text (`Label/#/#/x`): carried over verbatim, stable under re-conversion
            items = [("t", rng.choice(placeholder))] + ([("g", [("t", rng.choice(good))])] if rng.random() < 0.4 else [])
            cells.append((write_items(rng, items), items))
        elif k < 0.08 and slashless:
            # cells without any '/', single or several tags
            items = [("t", rng.choice(slashless)) for _ in range(rng.randint(1, 3))]
            cells.append((write_items(rng, items), items))
        elif k < 0.80:
            items = gen_items(rng, changed if rng.random() < 0.5 else good, rng.randint(0, 3), 4)
            cells.append((write_items(rng, items), items))
        elif k < 0.90 and messy:
            # malformed tags mixed in: model comparison and the laws only
            items = gen_items(rng, good, rng.randint(0, 2), 3)
            txt = write_items(rng, items)
            cells.append((txt + "," + rng.choice(messy) if rng.random() < 0.5 else rng.choice(messy) + " , (" + txt + ")", None))
        else:
            # damaged structure: doubled / leading / trailing commas, unbalanced parentheses
            items = gen_items(rng, good, rng.randint(0, 2), 3)
            txt = write_items(rng, items)
            how = rng.randrange(5)
            if how == 0:
                txt = txt.replace(",", ",,", 1) if "," in txt else "," + txt
            elif how == 1:
                txt = txt + ","
            elif how == 2:
                txt = "(" + txt
            elif how == 3:
                txt = txt + ")"
            else:
                txt = txt.replace("(", "", 1) if "(" in txt else txt + " ( "
            cells.append((txt, None))
    return cells


def impl_series(texts, schema, form):
    import pandas as pd
    from hed.models.df_util import convert_to_form
    ser = pd.Series(list(texts), dtype=object)
    ret = convert_to_form(ser, schema, form)
    return ret, list(ser)


def run_bulk(ctx, name, ns, schema, cases, known_shorts, n_cells):
    """generate the cells of one schema run and the model requests for them"""
    rng = ctx.rng
    key = name + ns
    good, messy = build_pool(cases, ns, known_shorts)
    cells = gen_cells(rng, good, messy, n_cells)
    texts = [c[0] for c in cells]
    probes = []
    all_texts = texts
    nfr = min(12, len(texts))
    fr_names = ["onset", "HED", "note", "HED2"]
    fr_cols = [[str(i) for i in range(nfr)], texts[:nfr], texts[:nfr][::-1], (texts[nfr:2 * nfr] + [""] * nfr)[:nfr]]
    reqs = []
    for t in all_texts:
        for _, f in FORMS:
            reqs.append({"op": "c03.convert", "schema": key, "form": f, "text": t})
    reqs.append({"op": "c03.convertdf", "schema": key, "form": "short_tag", "names": fr_names, "cols": fr_cols,
                 "columns": ["HED", "HED2"]})
    reqs.append({"op": "c03.convertdf", "schema": key, "form": "long_tag", "names": fr_names[1:], "cols": fr_cols[1:]})
    reqs.append({"op": "c03.convertdf", "schema": key, "form": "long_tag", "names": fr_names, "cols": fr_cols,
                 "columns": ["HED", "nope"]})
    return cells, probes, fr_names, fr_cols, reqs


def check_bulk(ctx, name, ns, schema, cells, probes, fr_names, fr_cols, answers):
    import pandas as pd
    from hed import HedString
    from hed.models.df_util import convert_to_form
    texts = [c[0] for c in cells]
    all_texts = texts + probes
    base = {"schema": name, "ns": ns}
    model = {"short_tag": [], "long_tag": []}
    k = 0
    for t in all_texts:
        for _, f in FORMS:
            model[f].append(answers[k]["out"])
            k += 1
    ans_df = answers[k:k + 3]

    def bad(clause, route, form, i, got, want=None, signature=None):
        case = dict(base, bulk=route, form=form, text=all_texts[i])
        if want is not None:
            case["expect"] = want
        ctx.violation(clause, case, {"got": got, "expected": want}, signature=signature or sig_of(all_texts[i]))

    # (i) Series, in place
    out = {}
    for short, f in FORMS:
        try:
            ret, out[f] = impl_series(all_texts, schema, f)
        except Exception as e:
            ctx.violation("bulk-conversion-raised", dict(base, bulk="series", form=f, text="(whole series)"),
                          f"{type(e).__name__}: {e}")
            return
        if ret is not None:
            ctx.violation("in-place-contract", dict(base, bulk="series", form=f, text=all_texts[0]), f"returned {type(ret).__name__}")
        for i, t in enumerate(all_texts):
            if out[f][i] != model[f][i]:
                ctx.disagree("Schema.convertText = df_util.convert_to_form (Series)", dict(base, bulk="series", form=f, text=t),
                             model[f][i], out[f][i])
    ctx.count("bulk:route:series", 2 * len(all_texts))

    # (iii) HedString.get_as_short / get_as_long
    for i, t in enumerate(all_texts):
        hs = HedString(t, schema)
        got = {"short_tag": hs.get_as_short(), "long_tag": hs.get_as_long()}
        for _, f in FORMS:
            if got[f] != model[f][i]:
                ctx.disagree("Schema.convertText = HedString.get_as_short/long", dict(base, bulk="hedstring", form=f, text=t),
                             model[f][i], got[f])
            if i < len(cells) and cells[i][1] is not None:
                want = render(cells[i][1], "short" if f == "short_tag" else "long")
                if got[f] != want:
                    bad("HedString.get_as_form: tag not in canonical form", "hedstring", f, i, got[f], want)
    ctx.count("bulk:route:hedstring", 2 * len(all_texts))

    # direct oracle on the Series route: independent expectations
    for i, (t, items) in enumerate(cells):
        tags = list(leaves(items)) if items is not None else []
        nontriv = any(g["short"] != g["text"] or g["long"] != g["text"] for g in tags)
        ctx.case((name, ns, "bulk", t), nontrivial=nontriv,
                 sample=dict(base, cell=t, short=out["short_tag"][i]) if nontriv and len(tags) > 2 and "(" in t else None)
        ctx.count("bulk:cells")
        ctx.count("bulk:tags", len(tags))
        if items is None:
            ctx.count("bulk:cell:malformed-or-damaged")
            continue
        ctx.count(f"bulk:depth={depth_of(items)}")
        if tags and all("/" not in g["text"] for g in tags) and nontriv:
            ctx.count("bulk:cell:no-slash-but-not-canonical")
        for g in tags:
            ctx.count("bulk:tagkind:" + g["kind"] + ("+partial" if g["partial"] else ""))
        for short, f in FORMS:
            want = render(items, short)
            if out[f][i] != want:
                bad(f"convert_to_form({f}): tag not in canonical form", "series", f, i, out[f][i], want)

    # the laws, on the implementation alone (Series route again on the outputs)
    try:
        _, long_of_short = impl_series(out["short_tag"], schema, "long_tag")
        _, short_of_long = impl_series(out["long_tag"], schema, "short_tag")
        _, short_twice = impl_series(out["short_tag"], schema, "short_tag")
        _, long_twice = impl_series(out["long_tag"], schema, "long_tag")
    except Exception as e:
        ctx.violation("bulk-conversion-raised", dict(base, bulk="series", form="short_tag", text="(second pass)"),
                      f"{type(e).__name__}: {e}")
        return
    laws = (("long(short(cell)) != long(cell)", long_of_short, out["long_tag"], "long_tag"),
            ("short(long(cell)) != short(cell)", short_of_long, out["short_tag"], "short_tag"),
            ("short(short(cell)) != short(cell)", short_twice, out["short_tag"], "short_tag"),
            ("long(long(cell)) != long(cell)", long_twice, out["long_tag"], "long_tag"))
    for i, t in enumerate(all_texts):
        for clause, got, want, f in laws:
            if got[i] != want[i]:
                bad(clause, "laws", f, i, got[i], want[i])
    ctx.count("bulk:laws", 4 * len(all_texts))
    ctx.count("bulk:cells-with-placeholder-followed-by-text", sum(1 for t in texts if "/#/" in t))

    # (ii) DataFrame with a column subset, a non-default index; untouched columns stay identical
    nfr = len(fr_cols[0])
    if nfr:
        for (short, f), columns, names, a in ((FORMS[0], ["HED", "HED2"], fr_names, ans_df[0]),
                                              (FORMS[1], None, fr_names[1:], ans_df[1])):
            cols = fr_cols[len(fr_names) - len(names):]
            index = list(range(nfr + 5, 5, -1))
            df = pd.DataFrame({n: list(c) for n, c in zip(names, cols)}, index=index, dtype=object)
            before = df.copy(deep=True)
            case = dict(base, bulk="frame", form=f, text=cols[names.index("HED")][0], columns=columns)
            try:
                ret = convert_to_form(df, schema, f, columns)
            except Exception as e:
                ctx.violation("bulk-conversion-raised", case, f"{type(e).__name__}: {e}")
                continue
            if ret is not None:
                ctx.violation("in-place-contract", case, f"returned {type(ret).__name__}")
            if list(df.columns) != names or list(df.index) != index:
                ctx.violation("frame-shape-changed", case, {"columns": list(df.columns), "index": list(df.index)})
                continue
            impl_cols = [list(df[n]) for n in names]
            if a.get("cols") != impl_cols:
                ctx.disagree("Schema.convertFrame = df_util.convert_to_form (DataFrame)", case, a, impl_cols)
            selected = names if columns is None else columns
            for n, c in zip(names, cols):
                got = list(df[n])
                if n not in selected:
                    if got != list(before[n]):
                        ctx.violation("unselected-column-changed", dict(case, column=n), {"got": got[:3], "expected": c[:3]})
                    continue
                for j, t in enumerate(c):
                    i = texts.index(t)
                    if cells[i][1] is None:
                        continue
                    want = render(cells[i][1], short)
                    if got[j] != want:
                        ctx.violation(f"convert_to_form({f}) on a DataFrame column: tag not in canonical form",
                                      dict(base, bulk="frame", form=f, text=t, column=n, expect=want), {"got": got[j], "expected": want},
                                      signature=sig_of(t))
            ctx.count("bulk:route:frame", nfr * len(selected))
        # a column that does not exist: KeyError in model and implementation
        df = pd.DataFrame({n: list(c) for n, c in zip(fr_names, fr_cols)}, dtype=object)
        try:
            convert_to_form(df, schema, "long_tag", ["HED", "nope"])
            impl_err = None
        except KeyError:
            impl_err = "KeyError"
        except Exception as e:
            impl_err = type(e).__name__
        if ans_df[2].get("err") != impl_err:
            ctx.disagree("Schema.convertFrame KeyError = df_util.convert_to_form", dict(base, bulk="frame-missing-column", text=""),
                         ans_df[2], impl_err)


def run_schema(ctx, name, full, ns=""):
    from hed import HedTag
    from harness.props.c10 import install_kind_recorder
    install_kind_recorder()
    # a comma-separated name = several libraries merged into one schema (under the prefix `ns`): the loader finalises
    # the first schema, sets the prefix, merges the next library and finalises AGAIN with the prefix already set
    longs = read_longs(name)
    schema = load_impl(name, ns)
    # duplicates predicted here (a later tag whose folded short name is already registered), so that the vocabulary is
    # installed once per run; the model's and the loader's lists are compared with it after the batch
    seen, pred_dups = set(), []
    for l in longs:
        k = l.split("/")[-1].casefold()
        if k == "#":
            continue
        if k in seen:
            pred_dups.append(l)
        else:
            seen.add(k)
    ans = {"dups": pred_dups}
    impl_dups = sorted(e.name for k in schema.tags.duplicate_names.values() for e in k[1:]) \
        if hasattr(schema.tags, "duplicate_names") else []
    ctx.count(f"schema:{name}{ns}:tags", len(longs))
    longset = set(longs)
    known_shorts = {l.split("/")[-1].casefold() for l in longs}
    nodes = [l for l in longs if not l.endswith("/#") and l not in ans["dups"]]
    if not full:
        pick = set(ctx.rng.sample(nodes, min(len(nodes), 120)))
        if ns:
            # spellings whose first letters are letters of the prefix itself (a prefix removed as a character set
            # rather than as a string would eat them)
            near = [n for n in nodes if any(c and c[0].lower() in ns.lower() for c in n.split("/"))]
            pick |= set(ctx.rng.sample(near, min(len(near), 150)))
        pick |= {n for n in nodes if "Gen-" in n}        # every planted node of a generated schema
        nodes = [n for n in nodes if n in pick]
    cases = []
    for long in nodes:
        comps = long.split("/")
        has_val = (long + "/#") in longs
        for i in range(len(comps)):
            form = "/".join(comps[i:])
            for sp in case_variants(ctx.rng, form):
                cases.append((ns + sp, long, form, "", "plain"))
            sp = ctx.rng.choice(case_variants(ctx.rng, form))
            if has_val:
                # the last three: a placeholder followed by more text (fixed defect C03-placeholder-followed-by-text)
                for rem in ("/3 ms", "/Some Value_x", "/#", "/doi:10.1000/182", "/12:30", "/a/b:c", "/#/x", "/#/#/x", "/#/#"):
                    cases.append((ns + sp + rem, long, form, rem, "value"))
            else:
                ext = "/Xyzzy" + str(ctx.rng.randint(0, 9))
                cases.append((ns + sp + ext, long, form, ext, "ext"))
                cases.append((ns + sp + ext + "/Qq-w", long, form, ext + "/Qq-w", "ext2"))
                # the same path and extension again in other letter cases, on the same schema object: the remainder
                # must be carried over as written *this* time, whatever spelling was resolved before (a lookup memo
                # keyed by the folded text would hand back the earlier spelling's extension)
                for e, respellers in ((ext, (str.lower, str.swapcase)), (ext + "/Qq-w", (str.upper,))):
                    for respell in respellers:
                        t = respell(sp + e)
                        if t != sp + e:
                            cases.append((ns + t, long, form, t[len(sp):], "ext-respelled"))
                # an extension that is itself a schema tag: INVALID_PARENT_NODE
                other = ctx.rng.choice(longs).split("/")[-1]
                if other != "#":
                    cases.append((ns + sp + "/Qq/" + other, long, form, None, "badparent"))
    # malformed / unknown / wrong-namespace stream
    for _ in range(300 if not full else 1500):
        l = ctx.rng.choice(longs)
        k = ctx.rng.random()
        if k < 0.3:
            cases.append(("zz:" + l, None, None, None, "wrong-ns"))
        elif k < 0.5:
            cases.append((ns + "Nope" + l, None, None, None, "unknown"))
        elif k < 0.7:
            cases.append((ns + l.replace("/", "//", 1), None, None, None, "double-slash"))
        elif k < 0.85:
            cases.append((ns + "/" + l, None, None, None, "lead-slash"))
        else:
            cases.append((ns + l + "/", None, None, None, "trail-slash"))
    n_cells = (1000 if full else 110) if ctx.quick() else (4000 if full else 600)
    bcells, bprobes, fr_names, fr_cols, breqs = run_bulk(ctx, name, ns, schema, cases, known_shorts, n_cells)
    reqs = [{"op": "c03.schema", "name": name + ns, "ns": ns, "tags": longs}] + \
        [{"op": "c03.find", "schema": name + ns, "text": c[0]} for c in cases]
    answers = ctx.model.batch(reqs + breqs)
    banswers = answers[len(reqs):]
    answers = answers[:len(reqs)]
    if sorted(answers[0]["dups"]) != impl_dups:
        ctx.disagree("Schema.register duplicates = loader duplicates", {"schema": name}, answers[0]["dups"], impl_dups)
    if sorted(answers[0]["dups"]) != sorted(pred_dups):
        raise RuntimeError(f"harness: predicted duplicates {pred_dups} differ from the model's {answers[0]['dups']}")
    if not answers[0].get("wf"):
        ctx.notes.append(f"vocabulary {name} does not satisfy C03.WF (a folded form bound to two entries): theorems do not speak about it")
    ctx.count(f"schema:{name}{ns}:WF={answers[0].get('wf')}")
    ctx.count(f"schema:{name}{ns}:cleanNames={answers[0].get('cleanNames')}")
    if not answers[0].get("cleanNames"):
        note = (f"vocabulary {name} does not satisfy Schema.cleanNamesB (a name component that is empty, has a blank at an "
                "end or contains one of ,()/: , or a `#` that is not a last component): the bulk theorems do not speak about it")
        if note not in ctx.notes:
            ctx.notes.append(note)
    for cond, what in (("treeClosed", "C03.TreeClosed (a tag whose parent path is not a tag)"),
                       ("shortDistinct", "C03.ShortDistinct (two tags with the same folded short name)")):
        ctx.count(f"schema:{name}{ns}:{cond}={answers[0].get(cond)}")
        if not answers[0].get(cond):
            note = (f"vocabulary {name} does not satisfy {what}: the closed-form theorems "
                    "(prefixes_known, extension_resolves, forms_roundtrip_remainder, short_long_fixpoint) "
                    "do not speak about it")
            if note not in ctx.notes:
                ctx.notes.append(note)
    answers = answers[1:]
    for (text, long, form, rem, kind), m in zip(cases, answers):
        try:
            r = impl_find(HedTag, schema, text)
        except Exception as e:
            ctx.violation("lookup-raised", {"schema": name, "ns": ns, "text": text}, f"{type(e).__name__}: {e}")
            continue
        ctx.case((name, ns, text), nontrivial=kind != "plain" or "/" in text,
                 sample={"schema": name, "text": text, "impl": r} if kind in ("value", "badparent") and len(ctx.samples) < 5 else None)
        ctx.count("kind:" + kind)
        if canon_model(m) != r:
            ctx.disagree("Schema.find/forms = HedTag lookup/forms", {"schema": name, "ns": ns, "text": text}, canon_model(m), r)
        if long is not None and rem is not None:
            # skip extension spellings whose first term is a real child (then a deeper node is the right answer)
            first = rem[1:].split("/")[0].casefold() if rem else ""
            if kind in ("ext", "ext2", "ext-respelled") and first in known_shorts:
                continue
            cl = oracle(HedTag, schema, text, long, form, rem, ns, r, (long + "/#") in longset)
            if cl:
                ctx.violation(cl, {"schema": name, "ns": ns, "text": text, "node": long}, r, signature=sig_of(text))
        elif kind == "badparent":
            if r.get("err") != "INVALID_PARENT_NODE" and "err" in r:
                pass
    ctx.check_time()
    check_bulk(ctx, name, ns, schema, bcells, bprobes, fr_names, fr_cols, banswers)
    ctx.check_time()


def run(ctx):
    ctx.extra["rule"] = ("every tag x every suffix form x case variants x {plain, value, extension, nested extension, "
                         "extension naming a schema tag} (+ malformed/wrong-namespace stream), for the schemas listed in the "
                         "histogram; non-trivial = partial-path form or with a remainder.  Bulk stream per schema run: cells "
                         "assembled from those spellings (0-3 nesting levels, random blanks, empty cells, n/a, unknown and "
                         "malformed tags, damaged structure) through convert_to_form on a Series, on a DataFrame with a "
                         "column subset, and HedString.get_as_short/long; non-trivial = some tag of the cell is not already "
                         "in canonical form")
    for n in QUICK_FULL:
        run_schema(ctx, n, True)
    run_schema(ctx, "8.3.0", False, ns="xx:")
    run_schema(ctx, "8.3.0", False, ns="sc:")
    run_schema(ctx, "testlib_2.0.0", False, ns="tl:")
    run_schema(ctx, "testlib_2.0.0,score_1.1.0", False, ns="tl:")     # two libraries merged under one prefix
    # generated schemas (value-taking nodes that also have named children, deep chains)
    for g in range(1 if ctx.quick() else 6):
        run_schema(ctx, f"gen:{ctx.seed * 100 + g}", True if not ctx.quick() else False)
    for n in OTHERS:
        run_schema(ctx, n, not ctx.quick())
    if not ctx.quick():
        run_schema(ctx, "score_2.0.0", True, ns="sc:")
    run_cross_schema_history(ctx)


def run_cross_schema_history(ctx, case=None):
    """One process, several schemas that carry the SAME version label (a bundled schema and schemas generated from it),
    the same cells converted under each in turn and again in reverse: every answer is the one for the schema in force.
    Expected values come from our own reading of each schema's XML (a short name that the schema lacks stays as
    written).  Seeded change C03-g (results memoised per version label) needs exactly this history."""
    import pandas as pd
    from hed.models.df_util import convert_to_form
    seeds = case["seeds"] if case else [ctx.seed * 100, ctx.seed * 100 + 50]
    names = ["8.3.0"] + [f"gen:{x}" for x in seeds]
    table = {}
    for n in names:
        by_short = {}
        for l in read_longs(n):
            by_short.setdefault(l.split("/")[-1].casefold(), l)
        table[n] = by_short
    shorts = []
    for n in names[1:]:
        own = [l.split("/")[-1] for l in read_longs(n) if l.split("/")[-1].startswith("Gen-") and not l.endswith("/#")]
        shorts += own[:6]
    shorts += ["Red", "Sensory-event"]
    cells = shorts + [f"({a}, {b})" for a, b in zip(shorts, shorts[1:])][:8]

    def want(n, cell, form):
        def one(tok):
            l = table[n].get(tok.casefold())
            return tok if l is None else (l if form == "long_tag" else l.split("/")[-1])
        if cell.startswith("("):
            a, b = cell[1:-1].split(", ")
            return f"({one(a)},{one(b)})"
        return one(cell)
    schemas = {n: load_impl(n) for n in names}
    order = names + names[::-1]
    n_checked = 0
    for step, n in enumerate(order):
        for form in ("long_tag", "short_tag"):
            got = impl_series(cells, schemas[n], form)[1]
            for c, g in zip(cells, got):
                n_checked += 1
                w = want(n, c, form)
                if g != w:
                    ctx.violation(f"convert_to_form({form}): answer is not the one of the schema in force (cross-schema history)",
                                  {"bulk": "cross-schema-history", "seeds": seeds, "order": order, "step": step,
                                   "schema": n, "form": form, "text": c}, {"got": g, "expected": w})
                    return
    ctx.count("bulk:cross-schema-history:cells", n_checked)



def replay_bulk(ctx, case):
    """one cell through the three routes again: model, Series, one-column DataFrame, HedString, and the laws"""
    import pandas as pd
    from hed import HedString
    from hed.models.df_util import convert_to_form
    name, ns, text = case["schema"], case.get("ns", ""), case["text"]
    vocab = {"tags": [{"long": l} for l in read_longs(name)]}
    schema = load_impl(name, ns)
    a = ctx.model.batch([{"op": "c03.schema", "name": name + ns, "ns": ns, "tags": [t["long"] for t in vocab["tags"]]}] +
                        [{"op": "c03.convert", "schema": name + ns, "form": f, "text": text} for _, f in FORMS])
    model = {f: a[1 + i]["out"] for i, (_, f) in enumerate(FORMS)}
    hs = HedString(text, schema)
    routes = {"hedstring": {"short_tag": hs.get_as_short(), "long_tag": hs.get_as_long()}, "series": {}, "frame": {}}
    for _, f in FORMS:
        routes["series"][f] = impl_series([text], schema, f)[1][0]
        df = pd.DataFrame({"HED": [text], "note": [text]}, index=[7], dtype=object)
        convert_to_form(df, schema, f, ["HED"])
        routes["frame"][f] = df["HED"][7]
        if df["note"][7] != text:
            ctx.violation("unselected-column-changed", dict(case, column="note"), {"got": df["note"][7], "expected": text})
    print("cell: ", json.dumps(text), "\nmodel:", json.dumps(model))
    for r, v in routes.items():
        print(f"{r:9s}:", json.dumps(v))
        for _, f in FORMS:
            if v[f] != model[f]:
                ctx.disagree(f"Schema.convertText = {r} route", dict(case, bulk=r, form=f), model[f], v[f])
    want = case.get("expect")
    f = case.get("form", "short_tag")
    route = case.get("bulk") if case.get("bulk") in routes else "series"
    if want is not None and case.get("bulk") != "laws" and routes[route][f] != want:
        ctx.violation(f"convert_to_form({f}): tag not in canonical form", case, {"got": routes[route][f], "expected": want},
                      signature=sig_of(text))
    s_short, s_long = routes["series"]["short_tag"], routes["series"]["long_tag"]
    for clause, got, exp in (("long(short(cell)) != long(cell)", impl_series([s_short], schema, "long_tag")[1][0], s_long),
                             ("short(long(cell)) != short(cell)", impl_series([s_long], schema, "short_tag")[1][0], s_short),
                             ("short(short(cell)) != short(cell)", impl_series([s_short], schema, "short_tag")[1][0], s_short),
                             ("long(long(cell)) != long(cell)", impl_series([s_long], schema, "long_tag")[1][0], s_long)):
        if got != exp:
            print("law fails:", clause, json.dumps(got), "vs", json.dumps(exp))
            ctx.violation(clause, case, {"got": got, "expected": exp}, signature=sig_of(text))


def replay(ctx, rec):
    from hed import HedTag
    case = rec.get("case") or (rec.get("disagreements") or [{}])[0].get("case")
    if not case:
        print("nothing to replay (obligation-only record):", rec.get("broken_obligations"))
        return
    if case.get("bulk") == "cross-schema-history":
        return run_cross_schema_history(ctx, case)
    if case.get("bulk"):
        return replay_bulk(ctx, case)
    name, ns = case["schema"], case.get("ns", "")
    vocab = {"tags": [{"long": l} for l in read_longs(name)]}
    schema = load_impl(name, ns)
    a = ctx.model.batch([{"op": "c03.schema", "name": name + ns, "ns": ns, "tags": [t["long"] for t in vocab["tags"]]},
                         {"op": "c03.find", "schema": name + ns, "text": case["text"]}])
    r = impl_find(HedTag, schema, case["text"])
    print("model:", json.dumps(canon_model(a[1])), "\nimpl: ", json.dumps(r))
    if canon_model(a[1]) != r:
        ctx.disagree("Schema.find/forms = HedTag lookup/forms", case, canon_model(a[1]), r)
    if case.get("node"):
        pass
