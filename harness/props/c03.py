"""C03 — Every spelling of a schema tag resolves to the same node and canonical forms.

The model (`Schema.find`, forms) is fed with vocabularies read from the bundled XML by our own reader
(harness/schema_xml.py); the implementation side is `HedTag(text, schema)` of the loaded schema.
"""
import json

from harness import schema_xml

THEOREMS = [
    "HedVerif.C03.direct_hit",
    "HedVerif.C03.find_text",
    "HedVerif.C03.direct_hit_case",
    "HedVerif.C03.registered_forms_disjoint",
    "HedVerif.C03.walk_stops",
    "HedVerif.C03.remainder_verbatim",
    "HedVerif.C03.forms_roundtrip",
    "HedVerif.C03.namespace_ascii",
    # growth: soundness of registration, structural well-formedness, closed forms
    "HedVerif.Schema.register_sound_aux",
    "HedVerif.Schema.register_dups_spec",
    "HedVerif.C03.register_sound",
    "HedVerif.C03.treeClosed_iff_parents",
    "HedVerif.C03.wf_of_shortDistinct",
    "HedVerif.C03.dups_nil_of_shortDistinct",
    "HedVerif.C03.prefixes_known",
    "HedVerif.C03.key_prefix",
    "HedVerif.C03.extension_cases",
    "HedVerif.C03.extension_resolves",
    "HedVerif.C03.value_resolves",
    "HedVerif.C03.valueChild_of_tag",
    "HedVerif.C03.child_key",
    "HedVerif.C03.stop_transfer",
    "HedVerif.C03.forms_roundtrip_remainder",
    "HedVerif.C03.short_long_fixpoint",
    "HedVerif.C03.no_aliasing",
]
BUDGET = {"quick": 900, "thorough": 3600}

QUICK_FULL = ["8.3.0"]
OTHERS = ["8.0.0", "8.1.0", "8.2.0", "score_1.0.0", "score_1.1.0", "score_2.0.0", "testlib_1.0.2",
          "testlib_2.0.0", "testlib_2.1.0", "testlib_3.0.0"]


KIND_NAMES = {}


def load_impl(name, ns=""):
    from hed.errors.error_types import ValidationErrors
    for k in ("NO_VALID_TAG_FOUND", "INVALID_PARENT_NODE", "HED_LIBRARY_UNMATCHED"):
        KIND_NAMES[getattr(ValidationErrors, k)] = k
    from hed import load_schema_version
    v = name if "_" not in name else name
    return load_schema_version(f"{ns}{v}" if ns else v)


def case_variants(rng, s):
    out = {s, s.lower(), s.upper()}
    out.add("".join(c.upper() if rng.random() < 0.5 else c.lower() for c in s))
    return sorted(out)


def impl_find(HedTag, schema, text):
    tag = HedTag(text, schema)
    issues = tag._calculate_to_canonical_forms(schema)
    if tag._schema_entry is None:
        i = issues[0] if issues else {}
        return {"err": KIND_NAMES.get(i.get("_kind"), i.get("_kind", "?")), "a": i.get("index_in_tag"),
                "b": i.get("index_in_tag_end")}
    return {"node": tag._schema_entry.name, "rem": tag._extension_value, "ns": tag.schema_namespace,
            "short": tag.short_tag, "long": tag.long_tag, "base": tag.base_tag, "short_base": tag.short_base_tag}


def canon_model(m):
    if "err" in m:
        if m["err"] == "HED_LIBRARY_UNMATCHED":
            return {"err": m["err"], "a": None, "b": None}
        return {"err": m["err"], "a": m["a"], "b": m["b"]}
    return m


def oracle(HedTag, schema, text, node_long, form, rem, ns, r, has_val):
    """the property's clauses on the implementation alone, for a spelling of a known node"""
    if "err" in r:
        return "spelling-of-schema-tag-not-resolved"
    want = node_long
    if rem and has_val:   # value child takes over when there is a remainder
        want = want + "/#"
    if r["node"] != want:
        return "resolved-to-other-node"
    if r["rem"] != rem:
        return "remainder-not-verbatim"
    for f in ("short", "long"):
        t2 = HedTag(r[f], schema)
        if t2._schema_entry is None or t2._schema_entry.name != r["node"]:
            return f"{f}-form-identifies-other-node"
        if t2.long_tag != r["long"]:
            return f"long({f}(t))!=long(t)"
        if t2.short_tag != r["short"]:
            return f"short({f}(t))!=short(t)"
    return None


def run_schema(ctx, name, full, ns=""):
    from hed import HedTag
    from harness.props.c10 import install_kind_recorder
    install_kind_recorder()
    vocab = schema_xml.read(schema_xml.bundled()[name])
    schema = load_impl(name, ns)
    longs = [t["long"] for t in vocab["tags"]]
    ans = ctx.model.batch([{"op": "c03.schema", "name": name + ns, "ns": ns, "tags": longs}])[0]
    impl_dups = sorted(e.name for k in schema.tags.duplicate_names.values() for e in k[1:]) \
        if hasattr(schema.tags, "duplicate_names") else []
    if sorted(ans["dups"]) != impl_dups:
        ctx.disagree("Schema.register duplicates = loader duplicates", {"schema": name}, ans["dups"], impl_dups)
    ctx.count(f"schema:{name}{ns}:tags", len(longs))
    longset = set(longs)
    known_shorts = {l.split("/")[-1].casefold() for l in longs}
    nodes = [l for l in longs if not l.endswith("/#") and l not in ans["dups"]]
    if not full:
        pick = set(ctx.rng.sample(nodes, min(len(nodes), 120)))
        if ns:
            # spellings whose first letters are letters of the prefix itself (a prefix removed as a character set
            # rather than as a string would eat them)
            near = [n for n in nodes if any(c and c[0].lower() in ns.lower() for c in n.split("/"))]
            pick |= set(ctx.rng.sample(near, min(len(near), 150)))
        nodes = [n for n in nodes if n in pick]
    cases = []
    for long in nodes:
        comps = long.split("/")
        has_val = (long + "/#") in longs
        for i in range(len(comps)):
            form = "/".join(comps[i:])
            for sp in case_variants(ctx.rng, form):
                cases.append((ns + sp, long, form, "", "plain"))
            sp = ctx.rng.choice(case_variants(ctx.rng, form))
            if has_val:
                for rem in ("/3 ms", "/Some Value_x", "/#", "/doi:10.1000/182", "/12:30", "/a/b:c"):
                    cases.append((ns + sp + rem, long, form, rem, "value"))
            else:
                ext = "/Xyzzy" + str(ctx.rng.randint(0, 9))
                cases.append((ns + sp + ext, long, form, ext, "ext"))
                cases.append((ns + sp + ext + "/Qq-w", long, form, ext + "/Qq-w", "ext2"))
                # an extension that is itself a schema tag: INVALID_PARENT_NODE
                other = ctx.rng.choice(longs).split("/")[-1]
                if other != "#":
                    cases.append((ns + sp + "/Qq/" + other, long, form, None, "badparent"))
    # malformed / unknown / wrong-namespace stream
    for _ in range(300 if not full else 1500):
        l = ctx.rng.choice(longs)
        k = ctx.rng.random()
        if k < 0.3:
            cases.append(("zz:" + l, None, None, None, "wrong-ns"))
        elif k < 0.5:
            cases.append((ns + "Nope" + l, None, None, None, "unknown"))
        elif k < 0.7:
            cases.append((ns + l.replace("/", "//", 1), None, None, None, "double-slash"))
        elif k < 0.85:
            cases.append((ns + "/" + l, None, None, None, "lead-slash"))
        else:
            cases.append((ns + l + "/", None, None, None, "trail-slash"))
    reqs = [{"op": "c03.schema", "name": name + ns, "ns": ns, "tags": longs}] + \
        [{"op": "c03.find", "schema": name + ns, "text": c[0]} for c in cases]
    answers = ctx.model.batch(reqs)
    if not answers[0].get("wf"):
        ctx.notes.append(f"vocabulary {name} does not satisfy C03.WF (a folded form bound to two entries): theorems do not speak about it")
    ctx.count(f"schema:{name}{ns}:WF={answers[0].get('wf')}")
    for cond, what in (("treeClosed", "C03.TreeClosed (a tag whose parent path is not a tag)"),
                       ("shortDistinct", "C03.ShortDistinct (two tags with the same folded short name)")):
        ctx.count(f"schema:{name}{ns}:{cond}={answers[0].get(cond)}")
        if not answers[0].get(cond):
            note = (f"vocabulary {name} does not satisfy {what}: the closed-form theorems "
                    "(prefixes_known, extension_resolves, forms_roundtrip_remainder, short_long_fixpoint) "
                    "do not speak about it")
            if note not in ctx.notes:
                ctx.notes.append(note)
    answers = answers[1:]
    for (text, long, form, rem, kind), m in zip(cases, answers):
        try:
            r = impl_find(HedTag, schema, text)
        except Exception as e:
            ctx.violation("lookup-raised", {"schema": name, "ns": ns, "text": text}, f"{type(e).__name__}: {e}")
            continue
        ctx.case((name, ns, text), nontrivial=kind != "plain" or "/" in text,
                 sample={"schema": name, "text": text, "impl": r} if kind in ("value", "badparent") else None)
        ctx.count("kind:" + kind)
        if canon_model(m) != r:
            ctx.disagree("Schema.find/forms = HedTag lookup/forms", {"schema": name, "ns": ns, "text": text}, canon_model(m), r)
        if long is not None and rem is not None:
            # skip extension spellings whose first term is a real child (then a deeper node is the right answer)
            first = rem[1:].split("/")[0].casefold() if rem else ""
            if kind in ("ext", "ext2") and first in known_shorts:
                continue
            cl = oracle(HedTag, schema, text, long, form, rem, ns, r, (long + "/#") in longset)
            if cl:
                ctx.violation(cl, {"schema": name, "ns": ns, "text": text, "node": long}, r)
        elif kind == "badparent":
            if r.get("err") != "INVALID_PARENT_NODE" and "err" in r:
                pass
    ctx.check_time()


def run(ctx):
    ctx.extra["rule"] = ("every tag x every suffix form x case variants x {plain, value, extension, nested extension, "
                         "extension naming a schema tag} (+ malformed/wrong-namespace stream), for the schemas listed in the "
                         "histogram; non-trivial = partial-path form or with a remainder")
    for n in QUICK_FULL:
        run_schema(ctx, n, True)
    run_schema(ctx, "8.3.0", False, ns="xx:")
    run_schema(ctx, "8.3.0", False, ns="sc:")
    run_schema(ctx, "testlib_2.0.0", False, ns="tl:")
    for n in OTHERS:
        run_schema(ctx, n, not ctx.quick())
    if not ctx.quick():
        run_schema(ctx, "score_2.0.0", True, ns="sc:")


def replay(ctx, rec):
    from hed import HedTag
    case = rec.get("case") or (rec.get("disagreements") or [{}])[0].get("case")
    if not case:
        print("nothing to replay (obligation-only record):", rec.get("broken_obligations"))
        return
    name, ns = case["schema"], case.get("ns", "")
    vocab = schema_xml.read(schema_xml.bundled()[name])
    schema = load_impl(name, ns)
    a = ctx.model.batch([{"op": "c03.schema", "name": name + ns, "ns": ns, "tags": [t["long"] for t in vocab["tags"]]},
                         {"op": "c03.find", "schema": name + ns, "text": case["text"]}])
    r = impl_find(HedTag, schema, case["text"])
    print("model:", json.dumps(canon_model(a[1])), "\nimpl: ", json.dumps(r))
    if canon_model(a[1]) != r:
        ctx.disagree("Schema.find/forms = HedTag lookup/forms", case, canon_model(a[1]), r)
    if case.get("node"):
        pass
