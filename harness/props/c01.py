"""C01 — String validation verdict agrees with the HED rules.

Model: lean/HedVerif/Model/Validate.lean (`Validate.validate`), run through the self-contained driver op `c01.run`
(vocabulary, inherited tag attributes, unit classes and character data all come from OUR reading of the schema XML).
Streams:
  attrs    our inherited attributes per tag  ==  hed's `entry.has_attribute` (the data the model is fed with)
  grammar  conforming annotations over the schema vocabulary and one injected violation per kind; direct oracle on the
           implementation (conforming => no error; injected k => an error with the specification's code of k), and
           complete issue lists model == implementation whenever the case needs no definition dictionary
  fuzz     arbitrary strings (tags, fragments, delimiters, `#{}[]~:`, non-ASCII, control characters, fixtures):
           complete canonical issue lists model == implementation
"""
import json
import xml.etree.ElementTree as ET

from harness import schema_xml
from harness.props import c11
from harness.props.c01_extract import extract_codemap

EXTRACT = [extract_codemap]

THEOREMS = [
    "HedVerif.C01.codeMap_agrees_with_spec",
    "HedVerif.C01.sub_consistent",
    "HedVerif.C01.phase_structure",
    "HedVerif.C01.reported_iff_earlier_phases_silent",
    "HedVerif.C01.injected_forbidden_character",
    "HedVerif.C01.injected_unbalanced",
    "HedVerif.C01.injected_empty_delimiter",
    "HedVerif.C01.injected_empty_group",
    "HedVerif.C01.injected_unknown_tag",
    "HedVerif.C01.injected_forbidden_extension_term",
    "HedVerif.C01.injected_forbidden_extension",
    "HedVerif.C01.injected_missing_required_child",
    "HedVerif.C01.injected_stray_placeholder",
    "HedVerif.C01.injected_bad_unit",
    "HedVerif.C01.injected_bad_value",
    "HedVerif.C01.injected_undeclared_def",
    "HedVerif.C01.injected_wrong_valued_def",
    "HedVerif.C01.injected_altered_def_expand",
    "HedVerif.C01.injected_misplaced_tag_group",
    "HedVerif.C01.injected_misplaced_top_level",
    "HedVerif.C01.injected_duplicated_unique",
    "HedVerif.C01.injected_repeated",
    "HedVerif.C01.valid_no_error",
    "HedVerif.C01.no_error_implies_clean",
    "HedVerif.C01.no_error_iff_clean",
    "HedVerif.C01.issue_indices_in_tag",
    "HedVerif.C01.issue_char_index_in_text",
    "HedVerif.C01.Tiny.def_value_index_counterexample",
    "HedVerif.C01.Tiny.is_definition_structural_counterexample",
]
BUDGET = {"quick": 600, "thorough": 3000}

ALL_SCHEMAS = ["8.3.0", "8.2.0", "8.1.0", "8.0.0", "score_1.1.0", "score_2.0.0", "testlib_2.0.0", "testlib_3.0.0",
               "score_1.0.0", "testlib_1.0.2", "testlib_2.1.0"]
RESERVED = {"Def", "Def-expand", "Definition", "Onset", "Offset", "Inset", "Duration", "Delay", "Event-context"}
FLAGS = [("ext", "extensionAllowed"), ("tv", "takesValue"), ("rc", "requireChild"), ("tg", "tagGroup"),
         ("tl", "topLevelTagGroup"), ("uq", "unique"), ("rq", "required"), ("dep", "deprecatedFrom")]
# non-ASCII characters of the fuzz alphabet: casefold leaves every one unchanged, none is a digit
NONASCII = ["\u00e9", "\u4e2d", "\u00f1", "\u20ac", "\u2192", "\u00a0", "\u200b", "\u0085", "\u3000", "\U0001F600"]
# the declared definitions: (name, takes a value, text of the content group's children; "" = no content group)
DEF_LIST = [("A", False, "Red"), ("B", False, "Blue, (Green)"), ("C", True, "Label/#"), ("D", True, "Item-count/#"),
            ("U", True, "Distance/# m"), ("E", False, ""), ("P", True, "Label/aaaaaaaaaaaaaaaaaaaaaaaa#"),
            ("K", True, "Keyboard-key/#")]       # K: the placeholder tag has neither unit nor value class
# Definitions whose names hold a character with str.lower() != str.casefold() (sharp s, final capital sigma, a ligature):
# definitions are keyed by name.casefold() everywhere, so a lookup that lower-cases instead misses them.  Only for 8.3.0-generation
# vocabularies (older ones reject non-ASCII outright).  The model folds ASCII letters only, so these names are ALWAYS used exactly as
# declared, character for character - never case-varied (see Gen.def_tag) - and the model's key is the ASCII-lowered name.
DEF_LIST_UNICODE = [("Stra\u00dfe", False, "Red"), ("Ma\u00df-band", True, "Label/#"), ("\u039f\u0394\u039f\u03a3", False, "Blue"),
                    ("\ufb01x", True, "Item-count/#")]
DEF_NAME_CHARS = {c for n, _, _ in DEF_LIST_UNICODE for c in n if ord(c) > 127}


def model_fold(s):
    """the model's `fold`: ASCII letters lower-cased, everything else as written"""
    return "".join(c.lower() if c.isascii() else c for c in s)

SPEC = {  # the property statement's table: injected rule violation -> published code
    "unknown_tag": "TAG_INVALID", "forbidden_extension": "TAG_EXTENSION_INVALID",
    "forbidden_extension_term": "TAG_EXTENSION_INVALID", "missing_required_child": "TAG_REQUIRES_CHILD",
    "bad_unit": "UNITS_INVALID", "bad_value": "VALUE_INVALID", "repeated_tag": "TAG_EXPRESSION_REPEATED",
    "repeated_group": "TAG_EXPRESSION_REPEATED", "repeated_group_reordered": "TAG_EXPRESSION_REPEATED",
    "misplaced_tag_group": "TAG_GROUP_ERROR",
    "misplaced_top_level": "TAG_GROUP_ERROR", "several_top_level": "TAG_GROUP_ERROR",
    "unbalanced": "PARENTHESES_MISMATCH", "empty_delimiter": "TAG_EMPTY", "empty_group": "TAG_EMPTY",
    "forbidden_character": "CHARACTER_INVALID", "stray_placeholder": "PLACEHOLDER_INVALID",
    "definition_copy_placeholder": "PLACEHOLDER_INVALID", "undeclared_def": "DEF_INVALID", "wrong_def_value": "DEF_INVALID", "altered_def_expand": "DEF_EXPAND_INVALID",
    "duplicated_unique": "TAG_NOT_UNIQUE",
    # a Duration/Delay group that breaks the Duration rule (an extra tag; zero or two inner groups) written AFTER a legal delayed
    # Onset/Offset/Inset group, and BEFORE it (control): the rule holds per group, wherever the group is written (seed C04-f)
    "duration_group_malformed_after_delayed_temporal": "TEMPORAL_TAG_ERROR",
    "duration_group_malformed_before_delayed_temporal": "TEMPORAL_TAG_ERROR"}
# kinds produced by their own generator functions, not by Gen.inject
OWN_GENERATOR = {"definition_copy_placeholder", "duration_group_malformed_after_delayed_temporal",
                 "duration_group_malformed_before_delayed_temporal"}
# violations of these kinds belong to a known defect family (the duplicate check only compares neighbours of a sort that
# does not bring equal elements together): narrow signature, listed in known_findings.json or fixed by C04's patch
SIGNATURES = {"repeated_group_reordered": "C01-repeated-group-order-dependent"}


# values tried on every takes-value tag with two or more value classes and on one tag of every value-class combination:
# numbers, names, texts, dates, and texts that fail the word pattern of one class and the character list of another
VALUE_POOL = ["3", "-3.5e2", ".5", "abc", "nm_1-x", "lou$d", "a.b", "x@y", "3 dB", "3dB", "some text 1", "Text: more.",
              "2022-01-01T10:00:00", "2022-01-01", "1e", "a b$c", "-", "x+y", "0x1F", "3$"]


def class_regex():
    from harness import common
    return json.loads((common.REPO / "hed/validator/util/class_regex.json").read_text(encoding="utf-8"))


def ref_value_classes(rx, classes, value):
    """Reading of the specification from class_regex.json (Python `re`, independent of the validator and of the model):
    per class (word pattern matches, every character is of the class's character list)."""
    import re
    out = []
    for c in classes:
        word = rx["class_words"].get(c)
        word_ok = True if not word else bool(re.match(word, value))
        names = rx["class_chars"].get(c, [])
        if names:
            pat = re.compile("|".join(rx["char_regex"][n] for n in names))
            chars_ok = all(pat.match(ch) for ch in value)
        else:
            chars_ok = True
        out.append((word_ok, chars_ok))
    return out


def value_profile(per_class):
    """(a) one class accepts the value fully; (b) word pattern of one class and character list of another are met but
    no single class accepts; (c) nothing is met"""
    if any(w and ch for w, ch in per_class):
        return "a"
    if any(w for w, _ in per_class) and any(ch for _, ch in per_class):
        return "b"
    return "c"


def defs_for(v):
    """the definitions whose content tags exist in this vocabulary (none when it has no Def / Definition tag)"""
    shorts = {v.short(i) for i in range(len(v.long))}
    if not {"Def", "Def-expand", "Definition"} <= shorts:
        return []
    out = []
    for name, takes, text in DEF_LIST + (DEF_LIST_UNICODE if v.modern else []):
        tags = [t.strip(" ()").split("/")[0] for t in text.split(",") if t.strip(" ()")]
        if all(t in shorts for t in tags):
            out.append((name, takes, text))
    return out


def defs_string(defs):
    return ", ".join(f"(Definition/{n}{'/#' if takes else ''}" + (f", ({text}))" if text else ")") for n, takes, text in defs)

FIXTURES = [
    "", " ", "n/a", " n/a ", "N/A", "(n/a)", "n/a, Red", "Red", "red", "RED", "Red,Blue", "Red, Red", "Red, red", "(Red), (Red)",
    "(Red, Blue), (Blue, Red)", "((Red)), ((Red))", "Red,,Blue", ",Red", "Red,", "Red, ", "(Red,)", "(,Red)", "()", "(())",
    "Red, ()", "(Red)(Blue)", "(Red) Blue", "Red (Blue)", "Red(Blue)", "((Red)", "(Red))", ")Red(", ")(", "(", ")",
    "Red/Blue", "Color/Red", "Attribute/Sensory/Sensory-property/Visual-attribute/Color/CSS-color/Red-color/Red",
    "Sensory-property/Red", "Red/", "/Red", "Red//Blue", "Red/ /Blue", "Item/  Object", "Red\t\tBlue", "Label/abc",
    "Label/a b", "Label/#", "Label/# ", "Label", "Description/Some text, here", "Description/Text. More: text!",
    "Duration/3 s", "(Duration/3 s, (Red))", "(Duration/3 s, Red)", "(Duration/3 s)", "(Duration/3 s, (Red), (Blue))",
    "(Duration/3 s, Delay/2 s, (Red))", "(Delay/2 s, (Red))", "Duration/3 s, Red", "(Red, (Duration/3 s, (Blue)))",
    "(Duration, (Red))", "(Duration/3 zz, (Red))", "(Duration/abc s, (Red))", "(Duration/3, (Red))", "(Duration/3 S, (Red))",
    "(Duration/3 ms, (Red))", "(Duration/3 mS, (Red))", "(Duration/3 seconds, (Red))", "(Duration/# s, (Red))",
    "Weight/3 kg", "Weight/3 Kg", "Weight/3 g", "Weight/three g", "Weight/3 g g", "Weight/-3.5e2 g", "Weight/3\n g",
    "Frequency/3 Hz", "Frequency/3 hertz", "Frequency/3 hz", "Temperature/3 degC", "Temperature/3 oC", "Angle/3 rad",
    "Event-context", "(Event-context, Red)", "(Event-context, Red), (Event-context, Blue)", "(Red, (Event-context, Blue))",
    "(Event-context, Duration/3 s, (Red))", "(Event-context, Event-context)", "(Onset)", "(Onset, Red)", "Onset", "(Red, (Onset))",
    "(Offset)", "(Inset, (Red))", "(Delay/1 s, Onset)", "(Delay/1 s, Onset, Offset)", "Def/A", "(Def/A, Onset)", "(Def-expand/A, (Red))",
    "Def-expand/A", "Def", "Def-expand", "(Def-expand)", "Definition/X", "(Definition/X, (Red))", "(Definition/X/#, (Label/#))",
    "(Definition/X/#, (Label/#)), (Label/#)", "(Definition/X, (Red/#))", "(Red, (Definition/X))", "Definition",
    "Red/#", "Red/#/x", "Item/#", "Item/Xyz", "Item/Xyz/#", "Item/Object", "Object/Item", "Item/Xyz/Object", "Red/Xyz",
    "Clock-face", "Clock-face/3", "Gentalia", "Date-time/2022-01-01T10:00:00", "Date-time/2022-01-01", "Date-time/2022-01-01T10:00:00.5Z",
    "Date-time/2022-01-01T10:00:00+01:00", "Date-time/2022-01-01T10:00:00.Z", "ID/abc", "ID/a b", "ID/a$b", "ID/a{b}",
    "Label/a{b}", "{col}", "{col}, Red", "Red, {col", "[Red]", "Red ~ Blue", "Red~", "R$ed", "Re:d", "sc:Red", "sc:", ":Red", "1c:Red",
    "s c:Red", "Red:Blue", "a:b:c", "sc:Label/ab", "Label/sc:ab", "é", "Red ", "Label/中", "ID/中", "ID/€",
    "Label/\U0001F600", "Red\u200b", "Red\n", "Red\t", "Red,\tBlue", "Red,\nBlue", " Red , Blue ", "( Red , Blue )", "(Red,Blue) ,Green",
    "Age/3", "Age/3 years", "Age/3 year", "Speed/3 m-per-s", "Speed/3 mph", "Volume/3 m^3", "Distance/3 km", "Distance/3 Km",
    "Distance/3 feet", "Distance/3 foot", "Item-count/3", "Item-count/3.5", "Item-count/abc", "Fraction/0.5", "Fraction/.5",
    "Fraction/5.", "Fraction/1e-3", "Fraction/+1", "Fraction/--1", "Green, (Blue, (Red, (Yellow, (Purple))))", "Informational-property",
    "Property/Informational-property/Label/x", "informational-property/label/x", "LABEL/X", "label", "Visual-presentation, Red",
    "(Visual-presentation, (Red)), (Visual-presentation, (Red))", "(Red, (Blue)), (Red, (Blue))", "((Red), Blue), (Blue, (Red))",
    "Def/C/x1", "Def/C/x$1", "Def/C/x 1", "Def/D/3", "Def/D/abc", "Def/U/3 m", "Def/U/3", "Def/U/3 zz", "Def/U/abc m", "Def/U/3$ m",
    "(Def-expand/C/x1, (Label/x1))", "(Def-expand/C/x1, (Label/x2))", "(Def-expand/A, (Red))", "(Def-expand/A, (Blue))",
    "(Def-expand/B, ((Green), Blue))", "(Def-expand/B, (Blue))", "((Red), Def-expand/A)", "(Def-expand/A)", "(Def-expand/A, Red)",
    "(Delay/2 s, (Red))", "(Delay/abc s, (Red))", "(Delay/2, (Red))", "(delay/2 ms, (Red))", "(Delay/2 zz, (Red))", "(Delay/#, (Red))",
    "(Red, Delay/1.5 s)", "Delay/2 s, (Delay/3 s, (Red)), Blue", "(Delay/2 s, Delay/3 s, (Red))", "((Delay/2 s, (Red)))", "(Delay/1e3 ms, Onset, Def/A)",
    "(Delay/2 minutes, (Red))", "(Delay/2 hour, (Red))", "(Delay/.5 day, (Red))", "(Delay/2 Ms, (Red))", "(Delay/ s, (Red))", "(Delay/s 2, (Red))", "(Delay/2  s, (Red))", "(Delay/inf s, (Red))", "(Delay/1_0 s, (Red))", "(Delay/nan, (Red))", "(Delay/2\t s, (Red))",
    "Def/Stra\u00dfe", "(Def-expand/Stra\u00dfe, (Red))", "Def/Ma\u00df-band/x1", "(Def-expand/Ma\u00df-band/x1, (Label/x1))", "Def/\u039f\u0394\u039f\u03a3",
    "(Def/\u039f\u0394\u039f\u03a3, Onset)", "Def/\ufb01x/3", "Def/Stra\u00dfe/1", "Def/Ma\u00df-band",
    "Def/K/a", "Def/K/a$b", "Def/K/a b.c", "(Def-expand/K/x, (Keyboard-key/x))", "(Def-expand/K/x@, (Keyboard-key/x@))", "Def/K/#", "Def/K",
    "Def/K/x:y", "Def/K/é", "(Def/K/F1, Onset)", "Def/P/x$", "Def/P/x", "Def/P/x$y$", "(Def-expand/P/x, (Label/aaaaaaaaaaaaaaaaaaaaaaaax))", "Def/C/a$b$c", "Def/U/3$ m", "Def/D/3$",
    "Def/E", "(Def-expand/E)", "(Def-expand/E, (Red))", "Def/E/1", "Def/A$", "Def/A b", "Def/C/#", "Def/C/", "Def/C//x", "Def/c/X1", "def/a",
    "(Def-expand/A, (Red)), (Def-expand/A, (Red))", "(Def-expand/A, (Red), (Red))", "(Def-expand/A, Def-expand/B, (Red))",
    "(Def/D/3, Onset)", "(Def/A, Onset, Red)", "(Def/A, Def/B, Onset)", "(Onset, (Def-expand/A, (Red)))", "(Def/A, Offset, (Red))",
    "(Def/C, Onset)", "(Def/A/3, Onset)", "(Def/Q, Onset)", "(Def/A, Onset, (Red), (Blue))", "(Def/A, Onset, Delay/3 s, (Red))",
    "(Def/A, Offset)", "(Def/A, Inset)", "(Def/A, Onset, Offset)", "(Def/A, Onset), (Def/A, Onset)", "(Def/A, Onset, Delay/3 s, Delay/2 s)",
    "((Def-expand/A, (Red)), (Def-expand/B, (Blue, (Green))), Onset)", "(Def/A, (Def-expand/B, (Blue, (Green))), Onset)",
    "(Def/A, Onset, Red, (Blue))", "(Def/A, Onset, ())", "(Def/A, Inset, Blue)", "(Onset, Def/A, (Def/B))", "(Duration/3 s, (Def/A))",
    "(Blue, (Label/#, Green)), (Definition/Newdef/#, (Label/#, Green))", "(Blue, (Green, Label/#)), (Definition/Newdef/#, (Label/#, Green))",
    "(Definition/X/#, (Label/#)), (Label/#)", "(Label/#), (Definition/X/#, (Label/#))", "(Definition/X/#, (Label/#), (Label/#))",
    "(Definition/X/#, ((Label/#))), ((Label/#))", "(Red, (Definition/X/#, (Label/#)))", "(definition/X/#, (Label/#))", "Definition/X/#, (Label/#)",
    "(Duration/3 s, (Red)), (Item, Agent, (Duration/3 s, (Red)))", "(Duration/3 s, (Red)), (Item, (Agent, (duration/3 s, (red))))",
    "(Event-context, Red), (Item, (Event-context, Red))", "(Def/A, Onset), (Item, (Def/A, Onset))", "(Item, (Duration/3 s, (Red)))",
    "(),()", "((())),((()))", "(Red,()),(Red,())", "(Red,Blue),(Green),(Blue,Red)", "(Red,Blue),(Blue,Red)",
    "(Duration/3 s, Blue), (Delay/1 s, Onset, Def/A)", "(Delay/1 s, Onset, Def/A), (Duration/3 s, Blue)",
    "(Offset, Delay/2 s, Def/A), (Delay/3 s, (Blue), (Green))", "(Delay/1 s, Inset, Def/A), Green, (Duration/3 s, Delay/1 s, Blue, (Red))",
    "(Delay/2 s, Def/B, Offset), (Duration/3 s), (Duration/3 s, (Blue))", "(Delay/1 s, Onset, (Red)), (Duration/3 s, Blue)",
    "Label/ABC, Label/abc", "Label/ABC, Label/Abd, Label/abc", "Red, Blue, Red", "Red, Blue/Xx, Blue/xx", "Blue/Xx, Blue/Xx", "Label/a, Label/A", "Label/a, label/a",
]


PREFIXED_FIXTURES = [   # for a schema loaded as "tl:<version>"
    "tl:red", "tl:Red", "Tl:red", "TL:Red", "tl:RED", "tl:label/x", "tl:Label/x", "tl:item/xq", "tl:Item/object", "tl:Item/Object",
    "tl:", "tl:/Red", "tl:Red, Red", "tl:Red, tl:red", "(tl:Red, tl:blue)", "tl:Label/#", "tl:Def/x", "tl:property/Label/x", "tl:Property/label/x",
    "tl:informational-property/Label/x", "tl:sensory-event", "tl:Sensory-event", "tl:x", "t l:Red", "tl :Red", "tl:tl:Red", "Red/tl:x", "tl:Red/tl",
]

# ------------------------------------------------------------------------------------------ vocabulary

def version_tuple(s):
    out = []
    for p in s.split("."):
        try:
            out.append(int(p))
        except ValueError:
            out.append(0)
    return tuple(out)


class Vocab:
    """Everything the model needs about one schema, from our own XML reading."""

    def __init__(self, name, plural):
        self.name = name                     # "8.3.0" or, loaded under a namespace, "tl:8.3.0"
        self.ns, _, name = name.rpartition(":")
        self.ns = self.ns + ":" if self.ns else ""
        path = schema_xml.bundled()[name]
        raw = self.raw = schema_xml.read(path)
        self.long = [t["long"] for t in raw["tags"]]
        self.own = [t["attrs"] for t in raw["tags"]]
        self.index = {}
        for i, n in enumerate(self.long):
            self.index.setdefault(n, i)
        self.parent = [self.index.get(n.rpartition("/")[0]) if "/" in n else None for n in self.long]
        props = {p["name"] for p in raw["properties"]}
        hdr = raw["header"]
        std = hdr.get("withStandard") or (hdr.get("version") if not hdr.get("library") else "0")
        self.modern = "elementDomain" in props or version_tuple(std) >= (8, 3, 0)
        # properties of the attribute definitions (<property> children; schema_xml only keeps <attribute>)
        root = ET.parse(path).getroot()
        aprops = {}
        sec = root.find("schemaAttributeDefinitions")
        for a in ([] if sec is None else sec.findall("schemaAttributeDefinition")):
            aprops[a.findtext("name")] = {p.findtext("name") for p in a.findall("property")}
        if self.modern:
            inh = [n for n, ps in aprops.items() if "annotationProperty" not in ps]
        else:
            inh = [n for n, ps in aprops.items() if "isInheritedProperty" in ps]
        self.inheritable = set(inh or ["extensionAllowed"])
        self.mods, self.classes = c11.vocab_payload(raw, plural)
        cidx = {c["name"]: i for i, c in enumerate(self.classes)}
        vcs = {v["name"] for v in raw["value_classes"]}
        self.attrs = []
        for i, n in enumerate(self.long):
            a = {k: self.has(i, attr) for k, attr in FLAGS}
            a["uc"], a["vc"] = [], []
            if n.endswith("/#"):
                a["uc"] = [cidx[c] for v in self.own[i].get("unitClass", []) for c in str(v).split(",") if c in cidx]
                a["vc"] = [c for v in self.own[i].get("valueClass", []) for c in str(v).split(",") if c in vcs]
            a["parent"] = self.parent[i]
            self.attrs.append(a)
        shorts = set()
        self.dups = set()      # `_check_if_duplicate`: the last component is already a key (value nodes are keyed '#': never)
        for i, n in enumerate(self.long):
            if n.endswith("/#"):
                continue
            key = n.split("/")[-1].casefold()
            if key in shorts:
                self.dups.add(i)
            else:
                comps = n.casefold().split("/")
                shorts.update("/".join(comps[k:]) for k in range(len(comps)))

    def value_child(self, i):
        return self.index.get(self.long[i] + "/#")

    def has(self, i, attr):
        if attr in self.own[i]:
            return True
        if attr not in self.inheritable:
            return False
        it = i
        while it is not None:
            if self.value_child(it) is not None:
                break
            if attr in self.own[it]:
                return True
            it = self.parent[it]
        return False

    def base(self, i):
        """attributes of `base_tag_has_attribute`"""
        a = self.attrs[i]
        if a["tv"]:
            return self.attrs[self.parent[i]] if self.parent[i] is not None else {k: False for k, _ in FLAGS}
        return a

    def short(self, i):
        n = self.long[i]
        return (n[:-2] if n.endswith("/#") else n).split("/")[-1]

    def payload(self, chars):
        return {"defs": [{"key": model_fold(n), "takes": takes, "text": text} for n, takes, text in getattr(self, "defs", [])],
                "tags": self.long, "attrs": self.attrs, "mods": self.mods, "classes": self.classes, "modern": self.modern,
                "nonprintable": [ord(c) for c in chars if not c.isprintable()], "space": [ord(c) for c in chars if c.isspace()],
                "alnum": [ord(c) for c in chars if c.isalnum()], "alpha": [ord(c) for c in chars if c.isalpha()]}


# ------------------------------------------------------------------------------------------ implementation side

def install_recorder():
    """Harness-side instrumentation: keep the internal kind and the keyword arguments on every issue."""
    from hed.errors.error_reporter import ErrorHandler
    if getattr(ErrorHandler, "_verif_c01", False):
        return
    orig = ErrorHandler.format_error

    def fe(error_type, *a, **k):
        r = orig(error_type, *a, **k)
        for i in r:
            i["_kind"] = error_type
            i["_kw"] = k
        return r
    ErrorHandler.format_error = staticmethod(fe)
    ErrorHandler._verif_c01 = True
    ErrorHandler._verif_wrapped = True


def canon_impl(issue):
    from hed.models.hed_tag import HedTag
    from hed.models.hed_group import HedGroup
    kind, kw = issue["_kind"], issue["_kw"]
    st = issue.get("source_tag")
    span = None
    if isinstance(st, HedTag):
        span = [st.span[0], st.span[1]]
    elif isinstance(st, HedGroup):
        span = [st._startpos, st._endpos]
    sub = [issue["index_in_tag"], issue["index_in_tag_end"]] if "index_in_tag" in issue else None
    if "opening_parentheses_count" in kw:
        sub = [kw["opening_parentheses_count"], kw["closing_parentheses_count"]]
    txt = None
    if kind == "commaMissing" or issue["code"] == "COMMA_MISSING":
        txt = kw.get("tag")
    elif "value_class" in kw:
        txt = kw["value_class"]
    elif span is None and "tag_namespace" in kw:
        txt = kw["tag_namespace"]
    return [kind, issue["code"], int(issue["severity"]), span, sub, kw.get("char_index"), txt]


def impl_items(HedString, schema, text, dd):
    """what `split_delay_tags` reads: str(child) of every top-level child, and the Delay value of a group that holds one"""
    hs = HedString(text, schema, dd)
    found = {id(g): t for t, g in hs.find_top_level_tags({"delay"})}
    out = []
    for ch in hs.children:
        d = None
        if id(ch) in found:
            try:
                val = found[id(ch)].value_as_default_unit()
                d = "absent" if val is None else float(val)
            except Exception as e:
                d = "raises"
        out.append([str(ch), d])
    return out


def canon_model(i):
    txt = None if i["txt"] is None else "".join(map(chr, i["txt"]))
    return [i["kind"], i["code"], i["sev"], i["span"], i["sub"], i["chr"], txt]


def impl_validate(HedString, schema, text, ph, dd=None):
    """(sorted canonical issues | None when it raised, exception name)"""
    try:
        hs = HedString(text, schema, dd)
        issues = hs.validate(allow_placeholders=ph)
    except Exception as e:      # the duplicate check raises on empty duplicate groups (owned by C04)
        return None, type(e).__name__
    return sorted((canon_impl(i) for i in issues), key=json.dumps), None


# ------------------------------------------------------------------------------------------ generator

class Sealed(list):
    """a group whose shape is prescribed (Def-expand, Onset/Offset/Inset, Duration/Delay): no insertion inside"""


class Gen:
    def __init__(self, rng, v, plural):
        self.rng, self.v = rng, v
        self.plural = plural
        ok = [i for i in range(len(v.long)) if i not in v.dups]
        self.plain = [i for i in ok if not v.long[i].endswith("/#") and not v.attrs[i]["rc"] and not v.attrs[i]["tg"]
                      and not v.attrs[i]["tl"] and v.short(i) not in RESERVED]
        self.ext = [i for i in self.plain if v.attrs[i]["ext"] and v.value_child(i) is None]
        self.noext = [i for i in self.plain if not v.attrs[i]["ext"] and v.value_child(i) is None]
        self.val = [i for i in ok if v.long[i].endswith("/#") and v.short(i) not in RESERVED and not v.attrs[i]["dep"]
                    and not v.attrs[v.parent[i]]["dep"] and not v.base(i)["tl"] and not v.base(i)["tg"]]
        self.unit = [i for i in self.val if v.attrs[i]["uc"]]
        self.numeric = [i for i in self.val if v.attrs[i]["vc"] == ["numericClass"]]
        self.rc = [i for i in ok if v.attrs[i]["rc"] and not v.long[i].endswith("/#") and v.short(i) not in
                   {"Def", "Def-expand", "Definition"}]
        self.multi = [i for i in self.val if len(v.attrs[i]["vc"]) >= 2]
        combos = {}
        for i in self.val:
            combos.setdefault((tuple(v.attrs[i]["vc"]), bool(v.attrs[i]["uc"])), []).append(i)
        self.combos = combos
        self.rx = class_regex()
        self.by_short = {v.short(i): i for i in ok if not v.long[i].endswith("/#")}
        self.terms = {c.casefold() for n in v.long for c in n.split("/")}
        self.uid = 0
        self.ucs = {uc["name"]: uc for uc in v.raw["unit_classes"]}

    # ---- spelling
    def form(self, i):
        comps = self.v.long[i].split("/")
        if comps[-1] == "#":
            comps = comps[:-1]
        k = self.rng.randint(1, len(comps))
        s = "/".join(comps[-k:])
        r = self.rng.random()
        if r < 0.15:
            s = s.lower()
        elif r < 0.25:
            s = s.upper()
        elif r < 0.35:
            s = "".join(c.swapcase() if self.rng.random() < 0.3 else c for c in s)
        return self.v.ns + s

    def new_term(self):
        while True:
            self.uid += 1
            t = self.rng.choice(["Xq", "Zv", "Qx"]) + str(self.uid) + self.rng.choice(["", "-a", "_b", "zz"])
            if t.casefold() not in self.terms:
                return t

    def unit_text(self, i):
        """number + accepted unit of one of the tag's unit classes (c11's spelling logic)"""
        cname = self.v.classes[self.rng.choice(self.v.attrs[i]["uc"])]["name"]
        units = [u for u in self.ucs[cname]["units"] if " " not in u["name"]]
        u = self.rng.choice(units)
        sps = [x[0] for x in c11.spellings(self.rng, u, self.v.raw["unit_modifiers"]) if x[1] is True]
        sp = self.rng.choice(sps)
        if sp == "__plural__":
            sp = self.plural(u["name"].lower())
        n = self.rng.choice(c11.NUMS_OK)
        return f"{sp} {n}" if "unitPrefix" in u["attrs"] else f"{n} {sp}"

    def value(self, i):
        a = self.v.attrs[i]
        vc = a["vc"]
        self.uid += 1
        if a["uc"]:
            return self.unit_text(i)
        if "numericClass" in vc:
            return self.rng.choice(c11.NUMS_OK)
        if "dateTimeClass" in vc:
            return self.rng.choice(["2022-01-01T10:00:00", "1999-12-31T23:59:59.25", "2022-01-01T10:00:00Z"])
        if "nameClass" in vc:
            return f"nm{self.uid}" + self.rng.choice(["", "-x", "_y"])
        if "textClass" in vc:
            return f"Some text {self.uid}" + self.rng.choice(["", ".", " more", ": x"])
        return f"v{self.uid}"

    def leaf(self, used, ph):
        r = self.rng.random()
        for _ in range(50):
            if r < 0.6 or not self.val:
                i = self.rng.choice(self.plain)
                if i in used:
                    continue
                used.add(i)
                if i in self.ext and self.rng.random() < 0.3:
                    return self.form(i) + "/" + self.new_term()
                if self.v.value_child(i) is not None and self.rng.random() < 0.5:
                    continue
                return self.form(i)
            i = self.rng.choice(self.val)
            if i in used or self.v.parent[i] in used:
                continue
            used.add(i)
            used.add(self.v.parent[i])
            if ph and self.rng.random() < 0.3:
                return self.form(i) + "/#"
            return self.form(i) + "/" + self.value(i)
        return self.form(self.rng.choice(self.plain))

    def group(self, used, ph, depth):
        n = self.rng.randint(1, 3)
        out = [self.leaf(used, ph) for _ in range(n)]
        if depth > 1 and self.rng.random() < 0.5:
            out.insert(self.rng.randint(0, len(out)), self.group(used, ph, depth - 1))
        return out

    def conforming(self, ph):
        used = set()
        top = []
        for _ in range(self.rng.randint(1, 4)):
            top.append(self.leaf(used, ph) if self.rng.random() < 0.5 else self.group(used, ph, 3))
        if "Event-context" in self.by_short and self.rng.random() < 0.25:
            top.insert(self.rng.randint(0, len(top)), [self.spell("Event-context")] + self.group(used, ph, 2))
        if "Duration" in self.by_short and self.v.base(self.by_short["Duration"])["tl"] and self.rng.random() < 0.25:
            d = self.by_short["Duration"]
            g = [self.form(d) + "/" + self.unit_text(self.v.value_child(d)), self.group(used, ph, 2)]
            if self.rng.random() < 0.3 and "Delay" in self.by_short:
                dl = self.by_short["Delay"]
                g.insert(1, self.form(dl) + "/" + self.unit_text(self.v.value_child(dl)))
            top.insert(self.rng.randint(0, len(top)), Sealed(g))
        if getattr(self.v, "defs", None) and self.rng.random() < 0.3:
            usedefs = set()
            for _ in range(self.rng.randint(1, 2)):
                it = self.def_item(usedefs)
                if it is not None:
                    self.put(top, it[0], nested=False if it[1] else None)
        return top

    def spell(self, short):
        return self.form(self.by_short[short])

    def def_value(self, name):
        self.uid += 1
        return {"C": f"nm{self.uid}", "D": self.rng.choice(["3", "12", "0.5"]), "U": self.rng.choice(["3", "2.5"]), "P": f"v{self.uid}",
                "K": self.rng.choice([f"k{self.uid}", f"F{self.uid}", f"k-{self.uid}", f"k {self.uid}.5"]),
                "Ma\u00df-band": f"nm{self.uid}", "\ufb01x": self.rng.choice(["3", "7"])}.get(name)

    def def_tag(self, base, name, value=None):
        nm = self.rng.choice([name, name, name.lower()]) if name.isascii() else name     # non-ASCII names: exactly as declared
        return self.spell(base) + "/" + nm + ("/" + value if value is not None else "")

    def def_expand(self, name, value=None):
        """a correct Def-expand group of a declared definition"""
        text = dict((n, t) for n, _, t in self.v.defs)[name]
        tag = self.def_tag("Def-expand", name, value)
        if not text:
            return Sealed([tag])
        content = {"A": ["Red"], "B": self.rng.choice([["Blue", ["Green"]], [["Green"], "Blue"]]), "C": [f"Label/{value}"],
                   "D": [f"Item-count/{value}"], "U": [f"Distance/{value} m"],
                   "P": [f"Label/aaaaaaaaaaaaaaaaaaaaaaaa{value}"], "K": [f"Keyboard-key/{value}"]}.get(name) \
            or [text.replace("#", value if value is not None else "#")]
        g = [tag, Sealed(content)]
        if self.rng.random() < 0.3:
            g.reverse()
        return Sealed(g)

    def def_item(self, usedefs):
        """(node, must be at top level) using a declared definition correctly; None when none is left"""
        free = [d for d in self.v.defs if d[0] not in usedefs]
        if not free:
            return None
        name, takes, _ = self.rng.choice(free)
        usedefs.add(name)
        value = self.def_value(name) if takes else None
        r = self.rng.random()
        if r < 0.35:
            return self.def_tag("Def", name, value), False
        if r < 0.6:
            return self.def_expand(name, value), False
        anchors = [a for a in ("Onset", "Offset", "Inset") if a in self.by_short]
        if not anchors:
            return self.def_tag("Def", name, value), False
        a = self.rng.choice(anchors)
        g = [self.def_tag("Def", name, value) if self.rng.random() < 0.7 else self.def_expand(name, value), self.spell(a)]
        if a != "Offset" and self.rng.random() < 0.6:
            g.append([self.form(self.rng.choice(self.noext))])
        if "Delay" in self.by_short and self.v.base(self.by_short["Delay"])["tl"] and self.rng.random() < 0.2:
            g.append(self.form(self.by_short["Delay"]) + "/" + self.unit_text(self.v.value_child(self.by_short["Delay"])))
        self.rng.shuffle(g)
        return Sealed(g), True

    # ---- rendering
    def render(self, nodes):
        sep = self.rng.choice([",", ", ", ", ", " , "])
        parts = []
        for n in nodes:
            if isinstance(n, list):
                pad = self.rng.choice(["", "", " "])
                parts.append("(" + pad + self.render(n) + pad + ")")
            else:
                parts.append(n)
        return sep.join(parts)

    @staticmethod
    def groups_of(tree):
        out = [tree]
        for n in tree:
            if isinstance(n, list) and not isinstance(n, Sealed):
                out += Gen.groups_of(n)
        return out

    def put(self, tree, item, nested=None):
        """insert at a random admissible position: any group (nested=None), a parenthesised one (True), the top (False)"""
        gs = self.groups_of(tree)
        if nested is True:
            gs = gs[1:] or [tree]
        elif nested is False:
            gs = gs[:1]
        g = self.rng.choice(gs)
        g.insert(self.rng.randint(0, len(g)), item)

    # ---- injections: each returns the text (the base tree is consumed)
    def inject(self, kind, tree, ph):
        rng, v = self.rng, self.v
        if kind == "unknown_tag":
            self.put(tree, v.ns + self.new_term())
        elif kind == "forbidden_extension":
            if not self.noext:
                return None
            self.put(tree, self.form(rng.choice(self.noext)) + "/" + self.new_term())
        elif kind == "forbidden_extension_term":
            if not self.ext:
                return None
            i = rng.choice(self.ext)
            other = rng.choice([j for j in self.plain if j != i])
            self.put(tree, self.form(i) + "/" + self.new_term() + "/" + v.short(other))
        elif kind == "missing_required_child":
            if not self.rc:
                return None
            i = rng.choice(self.rc)
            if v.base(i)["tl"]:
                tree.append([self.form(i), [self.form(rng.choice(self.plain))]])
            else:
                self.put(tree, self.form(i))
        elif kind == "bad_unit":
            if not self.unit:
                return None
            i = rng.choice(self.unit)
            self.put(tree, self.form(i) + "/" + rng.choice(c11.NUMS_OK) + " " + rng.choice(["zzunit", "qq", "xunits"]))
        elif kind == "bad_value" and self.multi and rng.random() < 0.4:
            # a tag with several value classes and a value no single class accepts (word pattern of one, characters of another)
            i = rng.choice([j for j in self.multi if not v.attrs[j]["uc"]] or self.multi)
            bad = [x for x in VALUE_POOL if value_profile(ref_value_classes(self.rx, v.attrs[i]["vc"], x)) != "a"
                   and any(not w for w, _ in ref_value_classes(self.rx, v.attrs[i]["vc"], x))]
            if not bad or v.attrs[i]["uc"]:
                return None
            self.put(tree, self.form(i) + "/" + rng.choice(bad))
        elif kind == "bad_value":
            if not self.numeric:
                return None
            i = rng.choice(self.numeric)
            bad = rng.choice(c11.NUMS_BAD)
            if v.attrs[i]["uc"]:
                num, _, unit = self.unit_text(i).partition(" ")
                if num not in c11.NUMS_OK:
                    return None          # prefix unit: the number comes last
                bad = bad + " " + unit
            self.put(tree, self.form(i) + "/" + bad)
        elif kind == "repeated_tag":
            i = rng.choice(self.noext)
            g = rng.choice(self.groups_of(tree))
            g.insert(rng.randint(0, len(g)), self.form(i))
            g.insert(rng.randint(0, len(g)), self.form(i))
        elif kind in ("repeated_group", "repeated_group_reordered"):
            i, j = rng.sample(self.noext, 2)
            g = rng.choice(self.groups_of(tree))
            a = [self.form(i), self.form(j)]
            b = [self.form(j), self.form(i)] if kind == "repeated_group_reordered" else [self.form(i), self.form(j)]
            g.insert(rng.randint(0, len(g)), a)
            g.insert(rng.randint(0, len(g)), b)
        elif kind == "misplaced_tag_group":
            if "Def-expand" not in self.by_short:
                return None
            self.put(tree, self.spell("Def-expand") + "/" + self.new_term(), nested=False)
        elif kind == "misplaced_top_level":
            if "Event-context" not in self.by_short:
                return None
            if rng.random() < 0.5:
                self.put(tree, self.spell("Event-context"), nested=False)
            else:
                tree.append([self.form(rng.choice(self.noext)), [self.spell("Event-context"), self.form(rng.choice(self.ext or self.plain))]])
        elif kind == "several_top_level":
            if "Event-context" not in self.by_short or "Duration" not in self.by_short or \
                    not v.base(self.by_short["Duration"])["tl"]:
                return None
            d = self.by_short["Duration"]
            tree.append([self.spell("Event-context"), self.form(d) + "/" + self.unit_text(v.value_child(d)),
                         [self.form(rng.choice(self.noext))]])
        elif kind == "duplicated_unique":
            if "Event-context" not in self.by_short:
                return None
            tree[:] = [n for n in tree if not (isinstance(n, list) and n and isinstance(n[0], str)
                                               and n[0].casefold().endswith("event-context"))]
            a, b = rng.sample(self.noext, 2)
            tree.insert(rng.randint(0, len(tree)), [self.spell("Event-context"), self.form(a)])
            tree.insert(rng.randint(0, len(tree)), [self.spell("Event-context"), self.form(b)])
        elif kind == "empty_group":
            self.put(tree, [])
        elif kind == "stray_placeholder":
            if ph:
                if not self.noext:
                    return None
                self.put(tree, self.form(rng.choice(self.noext)) + "/#")
            else:
                cands = [i for i in self.val if not v.attrs[i]["uc"]] or self.val
                if not cands:
                    return None
                self.put(tree, self.form(rng.choice(cands)) + "/#")
        elif kind == "undeclared_def":
            if "Def" not in self.by_short:
                return None
            self.put(tree, self.spell("Def") + "/" + self.new_term())
        elif kind == "wrong_def_value":
            if "Def" not in self.by_short:
                return None
            names = {d[0] for d in v.defs}
            opts = [x for x in ["/A/3", "/C", "/B/x", "/D", "/E/1"] if x.split("/")[1] in names]
            if not opts:
                return None
            self.put(tree, self.spell("Def") + rng.choice(opts))
        elif kind == "altered_def_expand":
            if "Def-expand" not in self.by_short:
                return None
            names = {d[0] for d in v.defs}
            opts = [x for x in [("A", None, ["Blue"]), ("B", None, ["Blue"]), ("B", None, ["Blue", ["Green"], "Red"]),
                                ("C", "x1", ["Label/x2"]), ("A", None, None), ("E", None, ["Red"])] if x[0] in names]
            if not opts:
                return None
            nm, val, content = rng.choice(opts)
            self.put(tree, [self.def_tag("Def-expand", nm, val)] + ([content] if content is not None else []))
        text = self.render(tree)
        if kind == "unbalanced":
            r = rng.random()
            if r < 0.4 or "(" not in text:
                pos = rng.randint(0, len(text))
                text = text[:pos] + rng.choice("()") + text[pos:]
            else:
                idx = [k for k, c in enumerate(text) if c in "()"]
                k = rng.choice(idx)
                text = text[:k] + text[k + 1:]
        elif kind == "empty_delimiter":
            r = rng.random()
            if r < 0.3:
                text = text + rng.choice([",", ", ", " ,"])
            elif r < 0.5:
                text = rng.choice([",", ", "]) + text
            else:
                idx = [k for k, c in enumerate(text) if c == ","]
                if not idx:
                    text = text + ",,"
                else:
                    k = rng.choice(idx)
                    text = text[:k] + rng.choice([",,", ", ,"]) + text[k + 1:]
        elif kind == "forbidden_character":
            bad = ["[", "]"] + ([] if ph else ["{", "}"])
            if v.modern:
                bad += ["\u00a0", "\u200b", "\x07"]
            else:
                bad += ["\u00e9", "\u4e2d"]
            pos = rng.randint(0, len(text))
            text = text[:pos] + rng.choice(bad) + text[pos:]
        return text


def toplevel_copy_cases(g, n):
    """A correctly placed top-level tag group (each topLevelTagGroup tag of the schema; Def/Onset forms when definitions are
    declared) AND a copy of it nested at depth >= 2 — identical, or respelled (other case / longer form), members in the same
    order.  The rule itself (a topLevelTagGroup tag must sit in a group directly under the annotation) says the nested copy's
    tag is misplaced, however equal the copy is to a real top-level group.  Returns (text, first index of the nested part)."""
    v, rng = g.v, g.rng
    builders = []
    plain = lambda: g.form(rng.choice(g.noext))

    def value_group(short):
        i = g.by_short[short]
        val = g.unit_text(v.value_child(i))
        inner = rng.choice(g.noext)
        return lambda: [g.form(i) + "/" + val, [g.form(inner)]]
    for short in ("Duration", "Delay"):
        if short in g.by_short and v.base(g.by_short[short])["tl"]:
            builders.append(lambda short=short: value_group(short))
    if "Event-context" in g.by_short:
        def ec():
            a, b = rng.sample(g.noext, 2)
            return lambda: [g.spell("Event-context"), g.form(a), g.form(b)]
        builders.append(ec)
    names = {d[0] for d in getattr(v, "defs", [])}
    for anchor, nm in (("Onset", "A"), ("Offset", "B"), ("Inset", "A")):
        if anchor in g.by_short and nm in names:
            def on(anchor=anchor, nm=nm):
                inner = rng.choice(g.noext)
                with_group = anchor != "Offset" and rng.random() < 0.6
                return lambda: [g.spell("Def") + "/" + nm, g.spell(anchor)] + ([[g.form(inner)]] if with_group else [])
            builders.append(on)
    out = []
    if not builders:          # a schema without topLevelTagGroup tags (and no declared definitions)
        return out
    for k in range(n):
        make = builders[k % len(builders)]()
        top = make()
        if k % 3 == 0:
            copy = json.loads(json.dumps(top))              # the very same spelling
        else:
            copy = make()                                   # same entries, members in the same order, respelled
        nest = [plain(), plain(), copy] if rng.random() < 0.5 else [plain(), [plain(), copy]]
        if rng.random() < 0.5:
            nest.reverse()
        first = g.render([top])
        sep = rng.choice([", ", ","])
        lead = (plain() + sep) if rng.random() < 0.3 else ""
        text = lead + first + sep + g.render([nest])
        out.append((text, len(lead) + len(first)))
    return out


def definition_copy_cases(g, n):
    """A copy of a definition's inner group OUTSIDE the definition, members in the same and in the other order, at the top
    level and nested: only groups that are (inside) the Definition group are definition content (fix 5440313), so the
    copy's placeholder is a stray one.  (Definitions themselves are not allowed in a validated string: that error is
    reported as well and is part of the compared issue lists.)"""
    v, rng = g.v, g.rng
    if "Definition" not in g.by_short:
        return []
    out = []
    cands = [i for i in g.val if not v.attrs[i]["uc"]] or g.val
    for k in range(n):
        a = g.form(rng.choice(cands)) + "/#"
        b = g.form(rng.choice(g.noext))
        inner = [a, b] if rng.random() < 0.5 else [b, a]
        copy = list(inner) if k % 2 == 0 else list(reversed(inner))
        if rng.random() < 0.3:
            inner.append([g.form(rng.choice(g.noext))])
            copy = copy + [list(inner[-1])] if k % 4 < 2 else [list(inner[-1])] + copy
        name = g.new_term()
        definition = [g.spell("Definition") + "/" + name + "/#", inner]
        if rng.random() < 0.3:
            definition.reverse()
        outside = copy if rng.random() < 0.4 else [g.form(rng.choice(g.ext or g.plain)), copy]
        top = [outside, definition] if rng.random() < 0.5 else [definition, outside]
        if rng.random() < 0.3:
            top.insert(rng.randint(0, len(top)), g.form(rng.choice(g.noext)))
        out.append(g.render(top))
    return out


def duration_after_delayed_cases(g, n):
    """[(kind, text, ph)]: a conforming annotation + a LEGAL delayed temporal group `(Delay/t, Onset|Offset|Inset, Def/<declared>)`
    + ONE Duration/Delay group malformed for the Duration rule (the group holds only Duration and/or Delay and exactly one inner
    group): an extra tag, no inner group, two inner groups.  The malformed group is written after the delayed one (kind
    ..._after_...) or before it (..._before_..., control); other members may stand between.  Expectation from the rule itself:
    TEMPORAL_TAG_ERROR in both orders.  Needs Duration and Delay as top-level-group tags and declared definitions."""
    v, rng = g.v, g.rng
    if not getattr(v, "defs", None) or "Def" not in g.by_short:
        return []
    if not all(s in g.by_short and v.base(g.by_short[s])["tl"] for s in ("Duration", "Delay")):
        return []
    anchors = [a for a in ("Onset", "Offset", "Inset") if a in g.by_short]
    if not anchors:
        return []

    def timed(short):
        i = g.by_short[short]
        return g.form(i) + "/" + g.unit_text(v.value_child(i))

    def delayed():
        name, takes, _ = rng.choice(v.defs)
        value = g.def_value(name) if takes else None
        a = rng.choice(anchors)
        grp = [timed("Delay"), g.spell(a), g.def_tag("Def", name, value) if rng.random() < 0.75 else g.def_expand(name, value)]
        if a != "Offset" and rng.random() < 0.5:
            grp.append([g.form(rng.choice(g.noext))])
        if rng.random() < 0.6:
            rng.shuffle(grp)
        return Sealed(grp)

    def malformed():
        lead = rng.choice([["Duration"], ["Duration"], ["Delay"], ["Duration", "Delay"]])
        grp = [timed(s) for s in lead]
        a, b, c = (g.form(i) for i in rng.sample(g.noext, 3))
        k = rng.randrange(6)
        if k == 0:
            grp += [a]                    # (Duration/3 s, Blue)
        elif k == 1:
            pass                          # (Duration/3 s)
        elif k == 2:
            grp += [[a], [b]]             # (Duration/3 s, (Blue), (Red))
        elif k == 3:
            grp += [a, [b]]               # (Delay/1 s, Duration/2 s, Green, (Blue))
        elif k == 4:
            grp += [a, b]
        else:
            grp += [[a, [c]], [b]]
        if rng.random() < 0.6:
            rng.shuffle(grp)
        return Sealed(grp)

    def is_delayed(node):
        """a top-level member holding a Delay tag and an Onset/Offset/Inset tag"""
        if not isinstance(node, list):
            return False
        tags = [m.casefold() for m in node if isinstance(m, str)]
        return any("delay/" in m for m in tags) and any(m.rsplit("/", 1)[-1] in {a.casefold() for a in anchors} for m in tags)

    out = []
    for k in range(n):
        ph = rng.random() < 0.5
        tree = g.conforming(ph) if k % 4 > 1 else []     # half of them: the two groups alone
        first, second = delayed(), malformed()
        kind = "duration_group_malformed_after_delayed_temporal"
        if k % 2:
            first, second = second, first
            kind = "duration_group_malformed_before_delayed_temporal"
        if k % 2 == 0:
            i = rng.randint(0, len(tree))
            tree.insert(i, first)
            tree.insert(rng.randint(i + 1, len(tree)), second)
            if rng.random() < 0.3:                       # a second delayed group anywhere
                tree.insert(rng.randint(0, len(tree)), delayed())
        else:
            # control: the malformed group is written before EVERY delayed group (the conforming part may hold one as well)
            tree.append(second)
            if rng.random() < 0.3:
                tree.insert(rng.randint(0, len(tree)), delayed())
            j = min(x for x, node in enumerate(tree) if is_delayed(node))
            tree.insert(rng.randint(0, j), first)
        out.append((kind, g.render(tree), ph))
    return out


def value_class_cases(g):
    """[(text, expectation)]: every takes-value tag with >= 2 value classes and one tag of every value-class combination of the
    schema x VALUE_POOL; expectation = (accepted?, code an error must carry) from the reference reading, None for unit-class tags
    (there the value is split first: model comparison only)"""
    v, rng = g.v, g.rng
    tags = list(g.multi)
    for key, members in sorted(g.combos.items()):
        tags.append(rng.choice(members))
    out = []
    for i in dict.fromkeys(tags):
        classes = v.attrs[i]["vc"]
        for value in VALUE_POOL:
            text = g.form(i) + "/" + value
            if v.attrs[i]["uc"] or not classes:
                out.append((text, i, None, value))
                continue
            per = ref_value_classes(g.rx, classes, value)
            prof = value_profile(per)
            code = None if prof == "a" else ("VALUE_INVALID" if any(not w for w, _ in per) else "CHARACTER_INVALID")
            out.append((text, i, (prof, code), value))
    return out


# ------------------------------------------------------------------------------------------ fuzz

def fuzz_strings(rng, g, n):
    v = g.v
    specials = list("#{}[]~:/ ,()$.-_+^") + ["\t", "\n", " ", ", ", ",", "(", ")", "/"] + NONASCII + ["\x07", "\x1c"]
    frags = ["(Delay/2 s, (Red))", "Delay/3 ms", "Delay/x s", "delay/2", "Def/K/a", "Def/K/a$", "Def/K/F 1", "Def/A", "Def/C/x", "Def/D/3", "Def/U/3 m", "Def/B/x", "Def/C", "Def-expand/A", "(Def-expand/A, (Red))", "(Def-expand/C/x, (Label/x))",
             "(Def/A, Onset)", "(Def/B, Offset)", "(Def/A, Inset, (Red))", "Def/Zz", "Def", "Def-expand", "Definition", "Onset", "Offset", "Inset", "Duration", "Delay", "Event-context", "n/a",
             "3", "3 s", "ms", "abc", "#", "sc:", "x", "Label", "ID", "Red", "Blue", "Item", "Object", "Xyz"]
    out = []
    for _ in range(n):
        r = rng.random()
        if r < 0.25:
            # structured: a rendered random tree with a few random edits
            tree = g.conforming(rng.random() < 0.5)
            s = g.render(tree)
            for _ in range(rng.randint(0, 3)):
                pos = rng.randint(0, len(s))
                op = rng.random()
                if op < 0.5:
                    s = s[:pos] + rng.choice(specials) + s[pos:]
                elif op < 0.8 and s:
                    s = s[:pos] + s[pos + 1:]
                else:
                    s = s[:pos] + rng.choice(frags) + s[pos:]
            out.append(s)
            continue
        parts = []
        for _ in range(rng.randint(1, 7)):
            q = rng.random()
            if g.multi and rng.random() < 0.06:
                parts.append(g.form(rng.choice(g.multi)) + "/" + rng.choice(VALUE_POOL + ["#", "", "3 s"]))
                continue
            if q < 0.35:
                i = rng.randrange(len(v.long))
                t = g.form(i) if rng.random() < 0.8 else v.long[i]
                if v.long[i].endswith("/#") and rng.random() < 0.7:
                    t += "/" + rng.choice([g.value(i), "#", "abc", "3", "3 zz", "", "x y"])
                elif rng.random() < 0.2:
                    t += "/" + rng.choice([g.new_term(), v.short(rng.randrange(len(v.long))), "#", ""])
                parts.append(t)
            elif q < 0.5:
                parts.append(rng.choice(frags))
            elif q < 0.85:
                parts.append(rng.choice(specials))
            else:
                t = g.form(rng.randrange(len(v.long)))
                k = rng.randint(0, len(t))
                parts.append(t[:k] if rng.random() < 0.5 else t[k:])
        joiner = rng.choice(["", "", ",", ", ", " "])
        out.append(joiner.join(parts))
    # Random edits must not cut into a definition name whose case-folding changes its length (sharp s, ligature): the model's fold is
    # character-wise.  Such names are exercised, exactly as declared, by the grammar stream and the fixtures.
    return [x if not any(c in DEF_NAME_CHARS for c in x) else "".join(c for c in x if c not in DEF_NAME_CHARS) for x in out]


# ------------------------------------------------------------------------------------------ run

def check_attrs(ctx, v, schema):
    """our inherited attributes == the implementation's, tag by tag (the data the model is fed with)"""
    from hed.schema.hed_schema_constants import HedKey
    keys = {"ext": HedKey.ExtensionAllowed, "tv": HedKey.TakesValue, "rc": HedKey.RequireChild, "tg": HedKey.TagGroup,
            "tl": HedKey.TopLevelTagGroup, "uq": HedKey.Unique, "rq": HedKey.Required, "dep": HedKey.DeprecatedFrom}
    if bool(schema.schema_83_props) != v.modern:
        ctx.disagree("schema_83_props", {"schema": v.name}, v.modern, bool(schema.schema_83_props))
    for i, n in enumerate(v.long):
        e = schema.tags.get(n) if hasattr(schema, "tags") else None
        if e is None or e.name != n:
            continue
        mine = {k: v.attrs[i][k] for k in keys}
        theirs = {k: bool(e.has_attribute(a)) for k, a in keys.items()}
        mine["uc"] = [v.classes[c]["name"] for c in v.attrs[i]["uc"]]
        theirs["uc"] = list(e.unit_classes.keys())
        mine["vc"] = v.attrs[i]["vc"]
        theirs["vc"] = list(e.value_classes.keys())
        ctx.count("attrs:tags")
        if mine != theirs:
            ctx.disagree("inherited attributes (XML reader) = HedTagEntry", {"schema": v.name, "tag": n}, mine, theirs)


_VARIANT = None


def detect_variant():
    """which spelling of the duplicate rule the tree under test has (source text, never imported); read once per run,
    when hed is imported, so that a commit landing in the tree during a long run cannot split model and implementation"""
    global _VARIANT
    if _VARIANT is None:
        _VARIANT = _detect_variant()
    return _VARIANT


def _detect_variant():
    from harness import common
    src = lambda rel: (common.REPO / rel).read_text()
    return {"sortCanonical": "_sort_key" in src("hed/models/hed_group.py"),
            "eqFold": "self.short_tag.casefold() == other.short_tag.casefold()" in src("hed/models/hed_tag.py"),
            "emptyDupSafe": "isinstance(found_group, list) and found_group" in src("hed/validator/util/group_util.py"),
            "defCharRelocate": "_relocate_errors" in src("hed/validator/util/class_util.py")}


def run_cases(ctx, v, cases):
    """model answers for [(text, ph)]"""
    chars = sorted({c for t, _ in cases for c in t if ord(c) > 127})
    unknown = [c for c in chars if (c.casefold() != c and c not in DEF_NAME_CHARS) or c.isdigit()]
    if unknown:
        raise RuntimeError(f"alphabet holds characters outside the model's assumptions: {unknown!r}")
    base = dict(v.payload(chars), **detect_variant(), op="c01.run", ns=v.ns)
    out = []
    for k in range(0, len(cases), 20000):
        req = dict(base, cases=[{"text": t, "ph": ph} for t, ph in cases[k:k + 20000]])
        ans = ctx.model.batch([req])[0]
        if "bad-op" in ans:
            raise RuntimeError("driver: " + str(ans["bad-op"]))
        if sorted(ans["dups"]) != sorted(v.dups):
            raise RuntimeError(f"duplicate tag names: model {ans['dups']} harness {sorted(v.dups)}")
        out += ans["answers"]
    return out


def compare(ctx, stream, case, m, impl, exc):
    """complete canonical issue lists; returns True when compared"""
    ctx.count("index-theorem:hypothesis LookupStable " + ("holds" if m.get("stable", True) else "FAILS"))
    if not m.get("inrange", True):
        # conclusion of C01.issue_indices_in_tag evaluated on the model's issues (= the implementation's when compared)
        if not detect_variant()["defCharRelocate"] and "def" in case["text"].casefold():
            ctx.count("index-theorem:pair outside its tag (Def value on the unchanged code, see fixes/C01_def_value_char_index.diff)")
        else:
            ctx.disagree("index pair inside its tag (C01.issue_indices_in_tag)", case, False, True)
    if m.get("unmodelled_old"):
        ctx.count("unmodelled:before this round (Def of a definition whose placeholder tag has no unit/value class)")
    if m["unmodelled"]:
        ctx.count(f"{stream}:skipped-unmodelled")
        ctx.count("unmodelled:now: " + str(m.get("why")))
        return False
    if exc is not None or m["raises"]:
        ctx.count(f"{stream}:skipped-impl-raises" if exc is not None else f"{stream}:skipped-model-says-raises")
        if exc is not None and not m["raises"]:
            ctx.disagree("Validate.raises = the validator raises", case, False, exc)
        return False
    mine = sorted((canon_model(i) for i in m["issues"]), key=json.dumps)
    for i in m["issues"]:
        ctx.count("rule:" + i["kind"])
    if mine != impl:
        ctx.disagree("Validate.validate = HedString.validate (complete issue list)", case,
                     [x for x in mine if x not in impl][:6], [x for x in impl if x not in mine][:6])
    return True


def run_schema(ctx, name, n_grammar, n_fuzz, sweep):
    from hed import HedString, load_schema_version
    from hed.models import DefinitionDict
    from hed.schema.hed_schema_entry import pluralize
    rng = ctx.rng
    v = Vocab(name, pluralize.plural)
    schema = load_schema_version(name)
    v.defs = defs_for(v) if not v.ns else []       # the harness's definitions are spelled without a namespace
    dd = DefinitionDict(defs_string(v.defs), schema) if v.defs else None
    if dd is not None and (dd.issues or len(dd.defs) != len(v.defs)):
        raise RuntimeError(f"the harness's own definitions are not accepted: {dd.issues}")
    check_attrs(ctx, v, schema)
    g = Gen(rng, v, pluralize.plural)
    kinds = [k for k in SPEC if k not in OWN_GENERATOR]    # those are generated by definition_copy_cases / duration_after_delayed_cases
    cases = []   # (stream, kind, text, ph, needs_dict)
    for k in range(n_grammar):
        ph = rng.random() < 0.5
        if k % 2 == 0:
            cases.append(("grammar", "conforming", g.render(g.conforming(ph)), ph, dd is not None))
        else:
            kind = kinds[(k // 2) % len(kinds)]
            text = g.inject(kind, g.conforming(ph), ph)
            if text is None:
                ctx.count(f"inj-not-applicable:{name}:{kind}")
                continue
            cases.append(("grammar", kind, text, ph, dd is not None))
    if sweep:
        # every tag x every suffix form as a plain tag / with a value of its class
        for i in range(len(v.long)):
            if i in v.dups or v.short(i) in RESERVED or v.base(i)["tl"] or v.base(i)["tg"]:
                continue
            comps = v.long[i].split("/")
            if comps[-1] == "#":
                comps = comps[:-1]
                tail = "/" + g.value(i)
                if v.attrs[v.parent[i]]["dep"] or v.attrs[i]["dep"]:
                    continue
            else:
                tail = ""
                if v.attrs[i]["rc"]:
                    continue
            for k in range(1, len(comps) + 1):
                cases.append(("sweep", "conforming", v.ns + "/".join(comps[-k:]) + tail, False, dd is not None))
    tl_from = {}
    for text, start in toplevel_copy_cases(g, max(12, n_grammar // 60)):
        ph = rng.random() < 0.5
        tl_from[(text, ph)] = start
        cases.append(("grammar", "toplevel_copy", text, ph, dd is not None))
    for text in definition_copy_cases(g, max(8, n_grammar // 100)):
        cases.append(("grammar", "definition_copy_placeholder", text, False, dd is not None))
    for kind, text, ph in duration_after_delayed_cases(g, max(16, n_grammar // 40)):
        cases.append(("grammar", kind, text, ph, dd is not None))
    vc_expect = {}
    for text, i, exp, value in value_class_cases(g):
        vc_expect[text] = (i, exp, value)
        cases.append(("grammar", "valueclass", text, False, dd is not None))
    for s in FIXTURES + (PREFIXED_FIXTURES if v.ns else []) + fuzz_strings(rng, g, n_fuzz):
        cases.append(("fuzz", "fuzz", s, rng.random() < 0.5, dd is not None))
    answers = run_cases(ctx, v, [(c[2], c[3]) for c in cases])
    for n_done, ((stream, kind, text, ph, needs_dict), m) in enumerate(zip(cases, answers)):
        if n_done % 2000 == 0:
            ctx.check_time()
        case = {"schema": name, "stream": stream, "kind": kind, "ph": ph, "text": text, "dict": needs_dict}
        if kind == "toplevel_copy":
            case["nested_from"] = tl_from[(text, ph)]
        if kind == "valueclass":
            case["vc"] = {"tag": v.long[vc_expect[text][0]], "value": vc_expect[text][2]}
        impl, exc = impl_validate(HedString, schema, text, ph, dd if needs_dict else None)
        interesting = kind != "conforming" or "(" in text
        ctx.case((name, ph, text, needs_dict), nontrivial=interesting,
                 sample=case if stream == "grammar" and rng.random() < 0.004 else None)
        ctx.count(f"{stream}:cases")
        if compare(ctx, stream, case, m, impl, exc):
            ctx.count(f"{stream}:compared")
        if m.get("items") is not None:
            # Validate.delayItems = top-level children and Delay values of the real HedString (closes Tabular's Oracle.items)
            mine = [["".join(map(chr, it["str"])), it["delay"]] for it in m["items"]]
            theirs = impl_items(HedString, schema, text, dd if needs_dict else None)
            ok = len(mine) == len(theirs) and all(a[0] == b[0] and (a[1] is None and b[1] is None or a[1] == "unsure" and b[1] is not None
                                                                     or (a[1] is not None and b[1] is not None and c11.same_value(a[1], b[1])))
                                                  for a, b in zip(mine, theirs))
            ctx.count("delay-items:compared")
            for it in mine:
                if it[1] is not None:
                    ctx.count("delay-items:value " + ("number" if isinstance(it[1], dict) else it[1]))
            if not ok:
                ctx.disagree("Validate.delayItems = HedString children / value_as_default_unit", case, mine[:6], theirs[:6])
        if any(x in text.casefold() for x in ("def/", "def-expand/")):
            ctx.count(f"{stream}:cases-with-Def")
        if stream == "fuzz":
            continue
        # ---- direct oracle on the implementation
        if exc is not None:
            ctx.count("oracle:skipped-impl-raises")
            continue
        errs = [i for i in impl if i[2] < 10]
        if kind == "toplevel_copy":
            # only the nested copy's placement: a TAG_GROUP_ERROR whose tag lies in the nested part of the text
            ctx.count("inj:toplevel_copy")
            if not any(i[1] == "TAG_GROUP_ERROR" and i[3] and i[3][0] >= case["nested_from"] for i in errs):
                ctx.violation("nested-copy-of-a-top-level-group-not-reported-as-TAG_GROUP_ERROR", case, [i[:4] for i in impl][:6])
            continue
        if kind == "valueclass":
            ti, exp, _ = vc_expect[text]
            combo = ",".join(v.attrs[ti]["vc"]) or "(none)"
            ctx.count(f"valueclass:{name}:[{combo}]" + (":units" if v.attrs[ti]["uc"] else ""))
            if exp is None:
                continue
            prof, code = exp
            ctx.count("valueclass:profile-" + prof + (":multi-class" if len(v.attrs[ti]["vc"]) >= 2 else ""))
            if prof == "a" and errs:
                ctx.violation("value-accepted-by-one-class-reports-error", case, errs[:4])
            elif prof != "a" and code not in {i[1] for i in errs}:
                ctx.violation(f"value-accepted-by-no-single-class-not-reported-as-{code}", case, [i[:3] for i in impl][:6])
            continue
        if kind == "conforming":
            ctx.count("conforming")
            if errs:
                ctx.violation("conforming-annotation-reports-error", case, errs[:4])
        else:
            ctx.count("inj:" + kind)
            if SPEC[kind] not in {i[1] for i in errs}:
                ctx.violation(f"injected-{kind}-not-reported-as-{SPEC[kind]}", case, [i[:3] for i in impl][:6],
                              SIGNATURES.get(kind))
    ctx.check_time()


def run(ctx):
    install_recorder()
    ctx.extra["duplicate_rule_variant"] = detect_variant()
    ctx.extra["rule"] = ("grammar: conforming annotations over the schema vocabulary (random suffix form/case, extensions, values "
                         "with accepted units, Event-context/Duration/Delay groups, nesting <= 3, no repeated siblings) and one "
                         "injected violation per kind (+ own generators: nested copies of top-level groups, copies of definition content, a Duration/Delay "
                         "group malformed for the Duration rule written after / before a legal delayed Onset-Offset-Inset group); fuzz: random strings over tags, fragments, delimiters, #{}[]~:, "
                         "non-ASCII, control characters + fixtures; non-trivial = injected, fuzz, or has a group")
    ctx.notes.append("model = HedString(text, schema, def_dict) with the definition dictionary as data (content text resolved by the "
                     "model), one schema, default error handler; every grammar / sweep / fuzz case is compared on complete issue lists")
    ctx.notes.append("hypotheses of C01.issue_indices_in_tag: LookupStable is evaluated by the driver on every case (a false answer is "
                     "a disagreement); the Def-value index rule has two source-detected variants (fixes/C01_def_value_char_index.diff)")
    ctx.notes.append("str.isprintable/isspace/isalnum/isalpha of the non-ASCII characters used are data computed by CPython; "
                     "casefold = ASCII lower-casing on the alphabet used (checked per batch)")
    ctx.extra["spec_table"] = SPEC
    if ctx.quick():
        run_schema(ctx, "8.3.0", 3000, 4700, False)
        run_schema(ctx, "8.2.0", 500, 1000, False)
        run_schema(ctx, "score_1.1.0", 250, 400, False)
        run_schema(ctx, "tl:8.3.0", 300, 400, False)           # the same vocabulary loaded under a namespace
    else:
        for n in ALL_SCHEMAS:
            run_schema(ctx, n, 6000 if n == "8.3.0" else 2000, 120000 if n == "8.3.0" else 18000, True)
        run_schema(ctx, "tl:8.3.0", 2000, 10000, True)
        run_schema(ctx, "sc:score_2.0.0", 1000, 5000, False)
    kinds = sorted(set(SPEC))
    missing = [k for k in kinds if ctx.hist.get("inj:" + k, 0) == 0]
    ctx.extra["injection_kinds_exercised"] = {k: ctx.hist.get("inj:" + k, 0) for k in kinds}
    ctx.extra["model_rules_fired"] = {k[5:]: n for k, n in ctx.hist.items() if k.startswith("rule:")}
    for k in missing:
        ctx.obligation(f"coverage:injection-kind-{k}-exercised", False, "count 0")


def replay(ctx, rec):
    from hed import HedString, load_schema_version
    from hed.models import DefinitionDict
    from hed.schema.hed_schema_entry import pluralize
    install_recorder()
    case = rec.get("case") or (rec.get("disagreements") or [{}])[0].get("case")
    if not case or "text" not in case:
        print("nothing to replay (obligation-only record):", rec.get("broken_obligations"), case)
        return
    name = case["schema"]
    v = Vocab(name, pluralize.plural)
    schema = load_schema_version(name)
    v.defs = defs_for(v) if case.get("dict", True) else []
    dd = DefinitionDict(defs_string(v.defs), schema) if v.defs else None
    m = run_cases(ctx, v, [(case["text"], case["ph"])])[0]
    impl, exc = impl_validate(HedString, schema, case["text"], case["ph"], dd)
    print("text: ", repr(case["text"]), "placeholders:", case["ph"])
    print("model:", json.dumps(sorted((canon_model(i) for i in m["issues"]), key=json.dumps)), "raises:", m["raises"])
    print("impl: ", json.dumps(impl), "raised:", exc)
    compare(ctx, case.get("stream", "replay"), case, m, impl, exc)
    if exc is None and case.get("kind") == "toplevel_copy":
        errs = [i for i in impl if i[2] < 10]
        if not any(i[1] == "TAG_GROUP_ERROR" and i[3] and i[3][0] >= case.get("nested_from", 0) for i in errs):
            ctx.violation("nested-copy-of-a-top-level-group-not-reported-as-TAG_GROUP_ERROR", case, [i[:4] for i in impl][:6])
    elif exc is None and case.get("kind") == "valueclass":
        ti = v.index[case["vc"]["tag"]]
        if v.attrs[ti]["vc"] and not v.attrs[ti]["uc"]:
            per = ref_value_classes(class_regex(), v.attrs[ti]["vc"], case["vc"]["value"])
            prof = value_profile(per)
            code = None if prof == "a" else ("VALUE_INVALID" if any(not w for w, _ in per) else "CHARACTER_INVALID")
            errs = [i for i in impl if i[2] < 10]
            print("reference:", v.attrs[ti]["vc"], "(word ok, characters ok) per class:", per, "profile", prof, "expected code", code)
            if prof == "a" and errs:
                ctx.violation("value-accepted-by-one-class-reports-error", case, errs[:4])
            elif prof != "a" and code not in {i[1] for i in errs}:
                ctx.violation(f"value-accepted-by-no-single-class-not-reported-as-{code}", case, [i[:3] for i in impl][:6])
    elif exc is None and case.get("stream") in ("grammar", "sweep"):
        errs = [i for i in impl if i[2] < 10]
        kind = case["kind"]
        if kind == "conforming" and errs:
            ctx.violation("conforming-annotation-reports-error", case, errs[:4])
        elif kind != "conforming" and SPEC[kind] not in {i[1] for i in errs}:
            ctx.violation(f"injected-{kind}-not-reported-as-{SPEC[kind]}", case, [i[:3] for i in impl][:6],
                          SIGNATURES.get(kind))
