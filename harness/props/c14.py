"""C14 — Schema compliance checking accepts released schemas and flags seeded faults.

Model side: `HedVerif.Compliance.check` on schemas read from the bundled XML by the reader in this file
(ElementTree only), with the tables of `schema_compliance.py` / `hed_schema_constants.py` /
`schema_error_messages.py` re-extracted into `Generated/C14Tables.lean` on every run.
Implementation side: `hed.schema.from_string(xml)` + `check_compliance(warnings on / off)`.
Faults are seeded twice, independently: by the model's `seed` on its own data, and here by editing the XML
text that hed loads.
"""
import ast
import copy
import json
import os
import re
import shutil
import tempfile
import xml.etree.ElementTree as ET

from harness import extract, schema_xml
from harness import common

THEOREMS = [
    "HedVerif.C14.fault_dupNode",
    "HedVerif.C14.fault_undeclared",
    "HedVerif.C14.fault_missingRef",
    "HedVerif.C14.fault_classAttr",
    "HedVerif.C14.fault_deprecatedFrom",
    "HedVerif.C14.fault_conversionFactor",
    "HedVerif.C14.fault_defaultUnits",
    "HedVerif.C14.fault_allowedCharacter",
    "HedVerif.C14.fault_inLibrary",
    "HedVerif.C14.fault_hedId",
    "HedVerif.C14.fault_reported",
    "HedVerif.C14.errors_only",
    "HedVerif.C14.warnings_off_only_structural",
    "HedVerif.C14.attr_rules_silent",
    "HedVerif.C14.chars_silent",
    "HedVerif.C14.survives_iff",
    "HedVerif.C14.error_faults_survive",
    "HedVerif.C14.hedid_nested_library_counterexample",
    "HedVerif.C14.duplicate_code_spec",
    "HedVerif.C14.dup_reported",
    "HedVerif.C14.dup_code_two",
    "HedVerif.C14.dup_tag_any_placement",
    "HedVerif.C14.deprecatedVerdict_iff",
    "HedVerif.C14.inLibrary_exact",
    "HedVerif.C14.conversionFactor_exact",
    "HedVerif.C14.hedId_exact",
    "HedVerif.C14.hedId_malformed",
    "HedVerif.C14.hedId_zero_flagged",
    "HedVerif.C14.siUnitModifier_not_a_tag_attribute_old",
    "HedVerif.C14.itemExists_silent_of_found",
]
BUDGET = {"quick": 400, "thorough": 3000}

SECS = ["tags", "unitClasses", "units", "unitModifiers", "valueClasses", "attributes", "properties"]
RELEASED = ["8.0.0", "8.1.0", "8.2.0", "8.3.0", "score_1.1.0", "score_2.0.0", "testlib_2.0.0", "testlib_2.1.0",
            "testlib_3.0.0"]          # score_1.0.0 and testlib_1.0.2 are excluded by the property
SEEDED = ["8.3.0", "8.2.0", "score_2.0.0"]
FINDING_HEDID = "C14-hedid-range-skipped-for-nested-library-tag"      # fixed in /repo by aa5708e

# ------------------------------------------------------------------------------------------------ extraction

VALIDATOR_OF = {      # name of the checker function in schema_attribute_validators.py -> constructor of `V`
    "item_exists_check": None, "unit_exists": "V.unitExists", "tag_is_placeholder_check": "V.placeholder",
    "tag_is_deprecated_check": "V.deprecatedFrom", "conversion_factor": "V.conversionFactor",
    "allowed_characters_check": "V.allowedCharacter", "in_library_check": "V.inLibrary",
    "is_numeric_value": "V.isNumeric", "attribute_is_deprecated": "V.attrDeprecated",
}
SEC_OF = {"Tags": "Sec.tags", "UnitClasses": "Sec.unitClasses", "Units": "Sec.units", "UnitModifiers": "Sec.unitModifiers",
          "ValueClasses": "Sec.valueClasses", "Attributes": "Sec.attributes", "Properties": "Sec.properties"}
# internal issue kinds the model can emit -> the error-type constant used at the call site in /repo
KINDS = [
    ("duplicateNode", "SchemaErrors.SCHEMA_DUPLICATE_NODE"),
    ("duplicateFromLibrary", "SchemaErrors.SCHEMA_DUPLICATE_FROM_LIBRARY"),
    ("invalidSibling", "SchemaErrors.SCHEMA_INVALID_SIBLING"),
    ("invalidChild", "SchemaErrors.SCHEMA_INVALID_CHILD"),
    ("unknownAttribute", "SchemaAttributeErrors.SCHEMA_ATTRIBUTE_INVALID"),
    ("prereleaseVersion", "SchemaWarnings.SCHEMA_PRERELEASE_VERSION_USED"),
    ("prologueCharacter", "SchemaWarnings.SCHEMA_PROLOGUE_CHARACTER_INVALID"),
    ("descCharacter", "SchemaWarnings.SCHEMA_INVALID_CHARACTERS_IN_DESC"),
    ("tagCharacter", "SchemaWarnings.SCHEMA_INVALID_CHARACTERS_IN_TAG"),
    ("capitalization", "SchemaWarnings.SCHEMA_INVALID_CAPITALIZATION"),
    ("nonPlaceholderHasClass", "SchemaWarnings.SCHEMA_NON_PLACEHOLDER_HAS_CLASS"),
    ("deprecatedInvalid", "SchemaAttributeErrors.SCHEMA_DEPRECATED_INVALID"),
    ("childOfDeprecated", "SchemaAttributeErrors.SCHEMA_CHILD_OF_DEPRECATED"),
    ("valueDeprecated", "SchemaAttributeErrors.SCHEMA_ATTRIBUTE_VALUE_DEPRECATED"),
    ("genericValueInvalid", "SchemaAttributeErrors.SCHEMA_GENERIC_ATTRIBUTE_VALUE_INVALID"),
    ("numericInvalid", "SchemaAttributeErrors.SCHEMA_ATTRIBUTE_NUMERIC_INVALID"),
    ("defaultUnitsInvalid", "SchemaAttributeErrors.SCHEMA_DEFAULT_UNITS_INVALID"),
    ("defaultUnitsDeprecated", "SchemaAttributeErrors.SCHEMA_DEFAULT_UNITS_DEPRECATED"),
    ("conversionFactorNotPositive", "SchemaAttributeErrors.SCHEMA_CONVERSION_FACTOR_NOT_POSITIVE"),
    ("hedIdInvalid", "SchemaAttributeErrors.SCHEMA_HED_ID_INVALID"),
    ("allowedCharactersInvalid", "SchemaAttributeErrors.SCHEMA_ALLOWED_CHARACTERS_INVALID"),
    ("inLibraryInvalid", "SchemaAttributeErrors.SCHEMA_IN_LIBRARY_INVALID"),
]

GEN_HEADER = '''/- GENERATED by harness/props/c14.py (extract_tables) from hed/schema/schema_compliance.py
   (SchemaValidator.attribute_validators_old / attribute_validators / _get_range_validators),
   hed/schema/hed_schema_constants.py (HedKey, HedKeyOld, HedSectionKey, character_types),
   hed/schema/schema_validation_util_deprecated.py, hed/errors/error_types.py and the @hed_error decorators of
   hed/errors/schema_error_messages.py.  Do not edit. -/
import HedVerif.Model.Tok
namespace HedVerif.Compliance

/-- `HedSectionKey` -/
inductive Sec
  | tags | unitClasses | units | unitModifiers | valueClasses | attributes | properties
deriving DecidableEq, Repr, Inhabited

/-- the attribute checkers of `schema_attribute_validators.py` and `HedIDValidator.verify_tag_id` -/
inductive V
  | itemExists (sec : Sec) | unitExists | placeholder | deprecatedFrom | conversionFactor
  | allowedCharacter | inLibrary | isNumeric | attrDeprecated | hedId
deriving DecidableEq, Repr

/-- internal issue kinds (the `error_type` passed to `format_error` at each call site); `pyRaises` marks a
place where the Python code would raise instead of returning issues -/
inductive IK
'''


def chars(s):
    """a Lean `List Char` literal (string literals do not reduce under `decide`)"""
    def one(ch):
        o = ord(ch)
        if ch == "'":
            return "'\\''"
        if ch == "\\":
            return "'\\\\'"
        if ch == "\n":
            return "'\\n'"
        if ch == "\t":
            return "'\\t'"
        if 32 <= o < 127:
            return f"'{ch}'"
        return "Char.ofNat %d" % o
    return "[" + ",".join(one(c) for c in s) + "]"


def _class_consts(relpath):
    """{'Class.NAME': constant} for simple class-level assignments of constants"""
    tree = ast.parse((common.REPO / relpath).read_text())
    out = {}
    for node in tree.body:
        if isinstance(node, ast.ClassDef):
            for st in node.body:
                if isinstance(st, ast.Assign) and len(st.targets) == 1 and isinstance(st.targets[0], ast.Name) \
                        and isinstance(st.value, ast.Constant):
                    out[f"{node.name}.{st.targets[0].id}"] = st.value.value
    return out


def _constants_module():
    """hed_schema_constants.py evaluated on its own (it imports only `enum`); hed itself is not imported"""
    src = (common.REPO / "hed/schema/hed_schema_constants.py").read_text()
    tree = ast.parse(src)
    for node in tree.body:
        if isinstance(node, (ast.Import, ast.ImportFrom)):
            mod = getattr(node, "module", None) or node.names[0].name
            if mod != "enum":
                raise ValueError(f"hed_schema_constants imports {mod}")
    ns = {"__name__": "c14_constants"}
    exec(compile(tree, "hed_schema_constants.py", "exec"), ns)
    return ns


def _dotted(node):
    if isinstance(node, ast.Attribute):
        return _dotted(node.value) + "." + node.attr
    if isinstance(node, ast.Name):
        return node.id
    raise ValueError(ast.dump(node))


def _validator(node):
    if isinstance(node, ast.Call) and _dotted(node.func) == "partial":
        fn = _dotted(node.args[0]).split(".")[-1]
        if fn != "item_exists_check" or len(node.keywords) != 1 or node.keywords[0].arg != "section_key":
            raise ValueError("unexpected partial: " + ast.dump(node))
        sec = _dotted(node.keywords[0].value).split(".")[-1]
        return f"V.itemExists {SEC_OF[sec]}"
    fn = _dotted(node).split(".")[-1]
    v = VALIDATOR_OF.get(fn)
    if not v:
        raise ValueError(f"unknown validator {fn}")
    return v


def _table(dict_node, keys):
    rows = []
    for k, v in zip(dict_node.keys, dict_node.values):
        name = keys[_dotted(k)]
        if not isinstance(v, ast.List):
            raise ValueError("validator list expected")
        rows.append((name, [_validator(e) for e in v.elts]))
    return rows


def _emit_table(name, rows, doc):
    body = ",\n".join(f"  ({chars(k)}, [{', '.join(vs)}])" for k, vs in rows)
    return f"/-- {doc} -/\ndef {name} : List (Str × List V) := [\n{body}]\n\n"


def read_tables():
    ns = _constants_module()
    keys = {f"HedKey.{k}": v for k, v in vars(ns["HedKey"]).items() if isinstance(v, str) and not k.startswith("_")}
    keys.update({f"HedKeyOld.{k}": v for k, v in vars(ns["HedKeyOld"]).items()
                 if isinstance(v, str) and not k.startswith("_")})
    tree = ast.parse((common.REPO / "hed/schema/schema_compliance.py").read_text())
    cls = next(n for n in tree.body if isinstance(n, ast.ClassDef) and n.name == "SchemaValidator")
    tables = {}
    for st in cls.body:
        if isinstance(st, ast.Assign) and isinstance(st.targets[0], ast.Name) and isinstance(st.value, ast.Dict):
            tables[st.targets[0].id] = _table(st.value, keys)
    fn = next(n for n in cls.body if isinstance(n, ast.FunctionDef) and n.name == "_get_range_validators")
    for st in ast.walk(fn):
        if isinstance(st, ast.Assign) and isinstance(st.targets[0], ast.Name) and st.targets[0].id == "range_validators":
            tables["range_validators"] = _table(st.value, keys)
    for t in ("attribute_validators_old", "attribute_validators", "range_validators"):
        if t not in tables:
            raise ValueError(f"table {t} not found in schema_compliance.py")
    # the shape of _get_validators that `validatorsFor` mirrors
    gv = ast.unparse(next(n for n in cls.body if isinstance(n, ast.FunctionDef) and n.name == "_get_validators"))
    return ns, keys, tables, gv


def extract_tables():
    ns, keys, tables, _ = read_tables()
    et = _class_consts("hed/errors/error_types.py")
    # decorators: error type -> (actual code, default severity)
    tree = ast.parse((common.REPO / "hed/errors/schema_error_messages.py").read_text())
    deco = {}
    for node in tree.body:
        if isinstance(node, ast.FunctionDef):
            for d in node.decorator_list:
                if isinstance(d, ast.Call) and _dotted(d.func) == "hed_error":
                    typ = _dotted(d.args[0])
                    kw = {k.arg: _dotted(k.value) for k in d.keywords}
                    deco[typ] = (kw.get("actual_code", typ), kw.get("default_severity", "ErrorSeverity.ERROR"))
    out = GEN_HEADER
    out += "  | " + " | ".join(k for k, _ in KINDS) + " | pyRaises\nderiving DecidableEq, Repr\n\n"
    out += "/-- published code of an issue kind (`actual_code` of its `@hed_error` decorator, else the type itself) -/\n"
    out += "def IK.code : IK → Str\n"
    for k, typ in KINDS:
        code, _ = deco[typ]
        out += f"  | .{k} => {chars(et[code])}\n"
    out += f"  | .pyRaises => {chars('PYTHON_RAISES')}\n\n"
    out += "/-- default severity of an issue kind (`default_severity` of its decorator) -/\ndef IK.sev : IK → Nat\n"
    for k, typ in KINDS:
        _, sev = deco[typ]
        out += f"  | .{k} => {et[sev]}\n"
    out += f"  | .pyRaises => {et['ErrorSeverity.ERROR']}\n\n"
    out += f"def sevError : Nat := {et['ErrorSeverity.ERROR']}\ndef sevWarning : Nat := {et['ErrorSeverity.WARNING']}\n\n"
    order = [SEC_OF[m.name].replace("Sec", "") for m in ns["HedSectionKey"]]
    out += "/-- iteration order of `for section_key in HedSectionKey` -/\n"
    out += "def secOrder : List Sec := [" + ", ".join(order) + "]\n\n"
    out += "/-- `str(section_key)` without the `HedSectionKey.` prefix -/\ndef Sec.label : Sec → Str\n"
    for m in ns["HedSectionKey"]:
        out += f"  | {SEC_OF[m.name].replace('Sec', '')} => {chars(m.name)}\n"
    out += "\nnamespace Key\n"
    for k, v in sorted(keys.items()):
        cls_, nm = k.split(".")
        out += f"def {nm} : Str := {chars(v)}\n"
    out += "end Key\n\n"
    out += _emit_table("tableOld", tables["attribute_validators_old"], "`SchemaValidator.attribute_validators_old` (< 8.3)")
    out += _emit_table("tableNew", tables["attribute_validators"], "`SchemaValidator.attribute_validators` (≥ 8.3)")
    out += _emit_table("tableRange", tables["range_validators"], "`range_validators` of `_get_range_validators`")
    ct = ns["character_types"]
    rows = []
    for name, members in ct.items():
        if members == "nonascii":
            rows.append((name, "", True))
        else:
            rows.append((name, "".join(sorted(m for m in members if len(m) == 1)), "nonascii" in members))
    out += "/-- `character_types`: name ↦ (characters, contains the marker \"nonascii\") -/\n"
    out += "def charTypes : List (Str × List Char × Bool) := [\n"
    out += ",\n".join(f"  ({chars(n)}, {chars(m)}, {'true' if na else 'false'})" for n, m, na in rows) + "]\n\n"
    dep = extract.module_assigns("hed/schema/schema_validation_util_deprecated.py")
    out += f"def allowedTagCharsOld : List Char := {chars(dep['ALLOWED_TAG_CHARS'].value)}\n"
    out += f"def allowedDescCharsOld : List Char := {chars(dep['ALLOWED_DESC_CHARS'].value)}\n"
    out += "\nend HedVerif.Compliance\n"
    extract.write_if_changed(extract.GEN / "C14Tables.lean", out)


EXTRACT = [extract_tables]


# ------------------------------------------------------------------------------------ independent XML reading

SECTION_XML = {"unitClasses": ("unitClassDefinitions", "unitClassDefinition"),
               "unitModifiers": ("unitModifierDefinitions", "unitModifierDefinition"),
               "valueClasses": ("valueClassDefinitions", "valueClassDefinition"),
               "attributes": ("schemaAttributeDefinitions", "schemaAttributeDefinition"),
               "properties": ("propertyDefinitions", "propertyDefinition")}


def elements(root):
    """section -> XML elements in document order (position i of the model = element i here)"""
    out = {"tags": list(root.find("schema").iter("node"))}
    for sec, (top, item) in SECTION_XML.items():
        el = root.find(".//" + top)
        out[sec] = [] if el is None else el.findall(".//" + item)
    out["units"] = [u for uc in out["unitClasses"] for u in uc.findall(".//unit")]
    return out


def attr_tag(sec):
    return "property" if sec in ("attributes", "properties") else "attribute"


def read_attrs(el, sec):
    d = {}
    for ch in el:
        if ch.tag != attr_tag(sec):
            continue
        vals = [v.text or "" for v in ch.findall(".//value")]
        d[ch.findtext("name")] = ",".join(vals) or None
    return [[k, v] for k, v in d.items()]


def read_model_schema(root, plural):
    """plain data for the model: [name, attrs, description, owner, plural] per entry"""
    els = elements(root)
    parent = {c: p for p in root.iter() for c in p}
    secs = {}
    for sec, lst in els.items():
        rows = []
        for el in lst:
            name = el.findtext("name")
            owner, pl = "", ""
            if sec == "tags":
                p, chain = parent[el], [name]
                while p.tag == "node":
                    chain.append(p.findtext("name"))
                    p = parent[p]
                name = "/".join(reversed(chain))
            if sec == "units":
                owner, pl = parent[el].findtext("name"), plural(name.lower())
            rows.append([name, read_attrs(el, sec), el.findtext("description") or "", owner, pl])
        secs[sec] = rows
    h = root.attrib
    for k in ("unmerged",):
        if h.get("withStandard") and h.get(k):
            raise ValueError("unmerged partnered schema: the reader expects merged files")
    return {"header": {"version": h.get("version", ""), "library": h.get("library", ""),
                       "withStandard": h.get("withStandard", "")},
            "prologue": root.findtext("prologue") or "", "epilogue": root.findtext("epilogue") or "", "secs": secs}


VERSION_FILE = re.compile(r"^HED(_([a-z0-9]+)_)?(\d+\.\d+\.\d+)\.xml$", re.I)


def vkey(v):
    return tuple(int(x) for x in v.split("."))


def read_env(cache_dir, schema, uni_text=""):
    """what the code reads from the cache folder: released versions, id ranges, ids of the previous release"""
    known = {}
    for f in os.listdir(cache_dir):
        m = VERSION_FILE.match(f)
        if m:
            known.setdefault(m.group(2) or "", []).append(m.group(3))
    for lib in known:
        known[lib].sort(key=vkey, reverse=True)
    ranges = json.loads((common.REPO / "hed/schema/schema_data/library_data/library_data.json").read_text())
    h = schema["header"]
    pairs = list(zip(h["library"].split(","), h["version"].split(",")))
    if h["withStandard"] and "" not in [p[0] for p in pairs]:
        pairs.append(("", h["withStandard"]))
    prev = []
    for lib, ver in pairs:
        older = [v for v in known.get(lib, []) if vkey(v) < vkey(ver)]
        if not older:
            continue
        fn = os.path.join(cache_dir, f"HED_{lib}_{older[0]}.xml" if lib else f"HED{older[0]}.xml")
        proot = ET.parse(fn).getroot()
        pm = read_model_schema(proot, lambda s: "")
        for sec, rows in pm["secs"].items():
            for name, attrs, *_ in rows:
                for a, v in attrs:
                    if a == "hedId" and v:
                        prev.append([lib, sec, name, v])
    uni = sorted({c for c in uni_text if ord(c) > 127})
    return {"known": [[k, v] for k, v in sorted(known.items())],
            "ranges": [[k, v["id_range"][0], v["id_range"][1]] for k, v in ranges.items()],
            "prev": prev, "uni": [[c, c.isalnum(), c.isupper(), c.isdigit()] for c in uni]}


def all_text(schema):
    return "".join(r[0] + r[2] for rows in schema["secs"].values() for r in rows)


# --------------------------------------------------------------------------------------- seeding the XML text

def _find_attr(el, sec, a):
    for ch in el:
        if ch.tag == attr_tag(sec) and ch.findtext("name") == a:
            return ch
    return None


def _new_attr(el, sec, a, v):
    ch = ET.SubElement(el, attr_tag(sec))
    ET.SubElement(ch, "name").text = a
    if v is not None:
        ET.SubElement(ch, "value").text = v
    return ch


def seed_xml(root, sd, els=None):
    """apply one fault to the tree in place (independent of the model's `seed`); returns the undo action"""
    els = els or elements(root)
    k = sd["k"]
    if k == "dupAt":
        return seed_xml_dup(root, sd, els)
    sec = "tags" if k in ("dupNode", "missingRef", "classAttr") else "unitClasses" if k == "defaultUnits" else sd["t"]
    el = els[sec][sd["i"]]
    if k == "dupNode":
        parent = next(p for p in root.iter() if el in list(p))
        twin = ET.SubElement(parent, "node")
        for ch in el:
            if ch.tag != "node":
                twin.append(copy.deepcopy(ch))
        return lambda: parent.remove(twin)
    a = {"deprecatedFrom": "deprecatedFrom", "conversionFactor": "conversionFactor", "defaultUnits": "defaultUnits",
         "allowedCharacter": "allowedCharacter", "inLibrary": "inLibrary", "hedId": "hedId"}.get(k) or sd["a"]
    v = sd.get("v")
    old = _find_attr(el, sec, a)
    if old is None:
        ch = _new_attr(el, sec, a, v)
        return lambda: el.remove(ch)
    if k in ("missingRef", "allowedCharacter"):      # one more value
        nv = ET.SubElement(old, "value")
        nv.text = v
        return lambda: old.remove(nv)
    removed = old.findall("value")                   # set
    for x in removed:
        old.remove(x)
    nv = None
    if v is not None:
        nv = ET.SubElement(old, "value")
        nv.text = v

    def undo():
        if nv is not None:
            old.remove(nv)
        for x in removed:
            old.append(x)
    return undo


def seed_xml_dup(root, sd, els):
    """one more definition with an existing name: a <node> below tag `under` (None: top level), a <unit> in unit
    class `under`, or a new definition element at the end of the section"""
    sec = sd["t"]
    if sec == "tags":
        parent = root.find("schema") if sd["under"] is None else els["tags"][sd["under"]]
        new = ET.SubElement(parent, "node")
    elif sec == "units":
        parent = els["unitClasses"][sd["under"]]
        new = ET.SubElement(parent, "unit")
    else:
        top, item = SECTION_XML[sec]
        parent = root.find(".//" + top)
        new = ET.SubElement(parent, item)
    ET.SubElement(new, "name").text = sd["x"]
    for a, v in sd["attrs"]:
        _new_attr(new, sec, a, v)
    return lambda: parent.remove(new)


def impl_obs(schema, warnings_on):
    from hed.errors.error_types import ErrorContext
    out = []
    for i in schema.check_compliance(warnings_on):
        out.append([i["code"], int(i["severity"]), str(i.get(ErrorContext.SCHEMA_SECTION, "")).replace("HedSectionKey.", ""),
                    str(i.get(ErrorContext.SCHEMA_TAG, "")), str(i.get(ErrorContext.SCHEMA_ATTRIBUTE, ""))])
    return sorted(out)


def impl_load(root):
    from hed.schema import from_string
    return from_string(ET.tostring(root, encoding="unicode"), schema_format=".xml")


# ------------------------------------------------------------------------------------------- seeds and oracle

SPEC_CODE = {      # the specification side in the harness: fault kind -> published code (as Spec.schemaCode)
    "dupNode": "SCHEMA_DUPLICATE_NODE", "undeclared": "SCHEMA_ATTRIBUTE_INVALID",
    "deprecatedFrom": "SCHEMA_DEPRECATION_ERROR", "missingRef": "SCHEMA_ATTRIBUTE_VALUE_INVALID",
    "classAttr": "SCHEMA_ATTRIBUTE_VALUE_INVALID", "conversionFactor": "SCHEMA_ATTRIBUTE_VALUE_INVALID",
    "defaultUnits": "SCHEMA_ATTRIBUTE_VALUE_INVALID", "allowedCharacter": "SCHEMA_ATTRIBUTE_VALUE_INVALID",
    "inLibrary": "SCHEMA_ATTRIBUTE_VALUE_INVALID", "hedId": "SCHEMA_ATTRIBUTE_VALUE_INVALID"}
SURVIVES_OFF = {"dupNode", "undeclared"}
KINDS10 = list(SPEC_CODE)


def spec_table_in_lean():
    """the hand-written `Spec.schemaCode` of Props/C14.lean, read back so that the two copies cannot drift"""
    text = (common.LEAN / "HedVerif" / "Props" / "C14.lean").read_text()
    body = text[text.index("def schemaCode"):text.index("end Spec")]
    out = {}
    for m in re.finditer(r"\|\s*(\.\w+|_)\s*=>\s*--\s*\"(\w+)\"", body):
        out[m.group(1).lstrip(".")] = m.group(2)
    return {k: out.get(k, out.get("_")) for k in KINDS10}


def pick(rng, seq, n, full):
    """all positions of a small section when `full`, else a seeded random sample of n"""
    seq = list(seq)
    return seq if (full and len(seq) <= 64) or len(seq) <= n else rng.sample(seq, n)


def nested_library_tags(ms):
    """library tags below another library tag, without a '#' child: their inherited inLibrary value is 'lib,lib'
    (the family of the defect fixed by aa5708e)"""
    tags = ms["secs"]["tags"]
    lib = ms["header"]["library"]
    own = {r[0]: dict(map(tuple, r[1])) for r in tags}
    return [i for i, r in enumerate(tags) if lib and own[r[0]].get("inLibrary") == lib and "hedId" in own[r[0]]
            and "/" in r[0] and own.get(r[0].rsplit("/", 1)[0], {}).get("inLibrary") == lib
            and not r[0].endswith("/#") and r[0] + "/#" not in own]


def gen_seeds(rng, ms, n, full, per=None, controls=True):
    """candidate faults (admissible or not: the model decides; inadmissible ones are correspondence-only)"""
    secs = ms["secs"]
    tags = secs["tags"]
    hashes = [i for i, r in enumerate(tags) if r[0].endswith("/#")]
    plain = [i for i, r in enumerate(tags) if not r[0].endswith("/#")]
    h = ms["header"]
    uc = [r[0] for r in secs["unitClasses"]]
    vc = [r[0] for r in secs["valueClasses"]]
    out = []

    def add(k, **kw):
        out.append(dict(k=k, **kw))
    for i in pick(rng, plain, n, full):
        add("dupNode", i=i)
    for i in pick(rng, hashes, max(1, n // 8), False):
        add("dupNode", i=i)                                          # '#' children: not detected, not admissible
    cross = {"tags": ["SIUnit", "unitSymbol"], "units": ["tagGroup", "requireChild"], "unitClasses": ["SIUnit"],
             "unitModifiers": ["unitPrefix", "tagGroup"], "valueClasses": ["extensionAllowed"],
             "attributes": ["extensionAllowed"], "properties": ["extensionAllowed"]}
    lean = per == 1                      # quick tier: tags plus a seeded random half of the other sections per kind
    per = per or max(2, n // 4)

    def sections():
        return ["tags"] + rng.sample(SECS[1:], 3) if lean else SECS
    for sec in sections():
        for i in pick(rng, range(len(secs[sec])), per if sec != "tags" else n, full and sec != "tags"):
            add("undeclared", t=sec, i=i, a=rng.choice(["c14Undeclared"] + cross[sec]))
    for a in ("unitClass", "valueClass"):
        other = (vc if a == "unitClass" else uc) or ["c14Other"]
        for i in pick(rng, hashes, n // 2 + 1, full) + pick(rng, plain, 2 if controls else 0, False):
            add("missingRef", i=i, a=a, v=rng.choice(["c14NoSuchClass", other[0]]))
        if hashes and controls:
            add("missingRef", i=hashes[0], a=a, v=(uc if a == "unitClass" else vc)[0])      # exists: control
    for a in ("suggestedTag", "relatedTag"):
        for i in pick(rng, range(len(tags)), n // 2 + 1, full):
            add("missingRef", i=i, a=a, v=rng.choice(["C14-no-such-tag", (vc or ["c14x"])[0]]))
        if controls or a == "suggestedTag":
            add("missingRef", i=plain[0], a=a, v=tags[plain[-1]][0].split("/")[-1])          # exists: control
    for j, i in enumerate(pick(rng, plain, max(n, 3), full)):
        a = ["takesValue", "unitClass", "valueClass"][j % 3]          # every class attribute, whatever the sample size
        add("classAttr", i=i, a=a, v=None if a == "takesValue" else (uc if a == "unitClass" else vc)[0])
    if hashes:
        add("classAttr", i=hashes[0], a="takesValue", v=None)                                 # control
    versions = ["9.9.9", h["version"], h["withStandard"] or h["version"], "banana", "8.3.0", "8.0.0", "1.0.0", "2.0.0"]
    j = rng.randrange(len(versions))
    for sec in sections():
        for i in pick(rng, range(len(secs[sec])), per if sec != "tags" else n, full and sec != "tags"):
            j += 1
            add("deprecatedFrom", t=sec, i=i, v=versions[j % len(versions)])       # cycles: every value is used
    for sec in ("units", "unitModifiers"):
        for i in pick(rng, range(len(secs[sec])), n // 2 + 1, full):
            add("conversionFactor", t=sec, i=i, v=rng.choice(["0", "-1.0", "0.0", "abc", "-10^3", "1e", "-inf", "0e5"]))
        add("conversionFactor", t=sec, i=0, v=rng.choice(["2.5", "10^-3", "1e3", "inf"]))    # control
    units_by_class = {}
    for r in secs["units"]:
        units_by_class.setdefault(r[3], []).append(r[0])
    for i in pick(rng, range(len(uc)), max(n, 3), full):
        foreign = [u for c, us in units_by_class.items() if c != uc[i] for u in us]
        own = units_by_class.get(uc[i], [])
        cand = ["c14nounit"] + ([rng.choice(foreign)] if foreign else []) + ([own[0].swapcase()] if own else [])
        add("defaultUnits", i=i, v=rng.choice(cand))
    if uc and units_by_class.get(uc[0]):
        add("defaultUnits", i=0, v=units_by_class[uc[0]][-1])                                 # control
    for sec in ("valueClasses", "units", "unitModifiers"):
        for i in pick(rng, range(len(secs[sec])), per, full):
            add("allowedCharacter", t=sec, i=i, v=rng.choice(["c14chars", "lettersx", "ab"]))
    if vc:
        add("allowedCharacter", t="valueClasses", i=0, v=rng.choice(["digits", "x"]))        # control
    for sec in sections():
        for i in pick(rng, range(len(secs[sec])), per if sec != "tags" else n, full and sec != "tags"):
            add("inLibrary", t=sec, i=i, v=rng.choice(["c14lib", "testlib9"]))
    if h["library"]:
        add("inLibrary", t="tags", i=plain[0], v=h["library"])                                # control
    ids = ["HED_0099999", "HED_0000001", "HED_12x4", "banana", "0099999", "HED_0045000", "HED_0012000", "-5"]
    for sec in sections():
        for i in pick(rng, range(len(secs[sec])), per if sec != "tags" else n, full and sec != "tags"):
            add("hedId", t=sec, i=i, v=rng.choice(ids))
    for i in pick(rng, nested_library_tags(ms), max(2, n // 2), False):
        add("hedId", t="tags", i=i, v=rng.choice(["HED_0099999", "HED_0012000"]), nested=True)
        add("deprecatedFrom", t="tags", i=i, v=rng.choice(["9.9.9", h["version"], "1.0.0", "1.1.0"]), nested=True)
    return out


DUP_CODES = ("SCHEMA_DUPLICATE_NODE", "SCHEMA_LIBRARY_INVALID")


def gen_hedid_boundaries(rng, ms, ranges, full, old_ids=None):
    """boundary ids taken from the range table (library_data.json, our own reading): 0, start-1, start, end-1, end,
    end+1 of the entry's own library and the first id of another library's range.  `verify_tag_id` tests
    `new_id < start or new_id > end`: the interval is closed at both ends.  Expectation, independent of the
    truthiness of the number: flagged iff outside [start, end] - or, when the previous release has an id for the
    entry (`old_ids`), iff outside or different from it."""
    table = {r[0]: (r[1], r[2]) for r in ranges}
    out = []
    for sec in SECS:
        rows = ms["secs"][sec]
        cands = {}
        for i, r in enumerate(rows):
            a = dict(map(tuple, r[1]))
            if "hedId" not in a or r[0].endswith("/#"):
                continue
            lib = (a.get("inLibrary") or "").split(",")[0]
            if lib in table:
                cands.setdefault(lib, []).append(i)
        for lib, idx in sorted(cands.items()):
            if not full and sec not in ("tags", "units"):
                continue
            lo, hi = table[lib]
            other = next((v[0] for k, v in sorted(table.items()) if k != lib), hi + 1)
            vals = [0, lo - 1, lo, hi - 1, hi, hi + 1, other]
            for i in rng.sample(idx, min(len(idx), 3 if full else 1)):
                chosen = vals if full else [0] + rng.sample(vals[1:], 2 if sec == "tags" else 1)
                for n_ in chosen:
                    old = (old_ids or {}).get((sec, rows[i][0]))
                    flagged = n_ < lo or n_ > hi or (old is not None and old != n_)
                    out.append({"k": "hedId", "t": sec, "i": i, "v": "HED_%07d" % n_, "boundary": n_, "lib": lib,
                                "entry": rows[i][0], "expect_flag": flagged})
    return out


def with_side(attrs, lib):
    """the attributes of a copy that is a library entry (`lib`) or a standard one (None)"""
    out = [[a, v] for a, v in attrs if a != "inLibrary"]
    return out + ([["inLibrary", lib]] if lib else [])


def gen_dup_seeds(rng, ms, plural, full):
    """duplicate names at every kind of relative position, in every section with names; the expected code comes
    from our own reading: DUPLICATE_NODE when both copies are on the same side (both carry inLibrary or neither
    does), LIBRARY_INVALID when exactly one does.  A copy without inLibrary is only placed below standard nodes
    (or at top level), so that it cannot inherit the attribute.  The copy always follows the original in document
    order (it is the last child of its parent, whose subtree must end after the original), as in the model, where
    it is the last entry of the section: the original stays the registered entry."""
    secs = ms["secs"]
    tags = secs["tags"]
    lib = ms["header"]["library"] or None
    other_lib = lib or "c14lib"
    index = {}
    for i, r in enumerate(tags):
        index.setdefault(r[0], i)
    own = [dict(map(tuple, r[1])) for r in tags]
    plain = [i for i, r in enumerate(tags) if not r[0].endswith("/#")]
    has_hash = [i for i in plain if tags[i][0] + "/#" in index]
    std = [i for i in plain if "inLibrary" not in own[i]]
    libs = [i for i in plain if "inLibrary" in own[i]]
    out = []

    def parent_of(i):
        p = tags[i][0].rpartition("/")[0]
        return index[p] if p else None

    def node(i, place, under, side):
        x = tags[i][0].rsplit("/", 1)[-1]
        long = x if under is None else tags[under][0] + "/" + x
        orig_side = own[i].get("inLibrary")
        attrs = with_side([], side)
        out.append({"k": "dupAt", "t": "tags", "orig": i, "place": place, "under": under, "x": x, "attrs": attrs,
                    "e": [long, attrs, "", "", ""], "flipped": bool(orig_side) != bool(side),
                    "expect": DUP_CODES[bool(orig_side) != bool(side)]})

    def subtree_end(j):
        k = j + 1
        while k < len(tags) and tags[k][0].startswith(tags[j][0] + "/"):
            k += 1
        return k

    def placements(i, need_std_parent):
        side_ok = (lambda j: j is None or "inLibrary" not in own[j]) if need_std_parent else (lambda j: True)
        ok = lambda j: side_ok(j) and (j is None or subtree_end(j) > i)
        par = parent_of(i)
        res = [("sibling", par)]
        if par is not None:
            res.append(("up", parent_of(par)))
        sib = [j for j in plain if j > i and parent_of(j) == par and j not in has_hash]
        res.append(("down", rng.choice(sib) if sib else i))
        root_name = tags[i][0].split("/")[0]
        far = [j for j in plain if tags[j][0].split("/")[0] != root_name and j not in has_hash and ok(j)]
        if far:
            res.append(("other-subtree", rng.choice(far)))
        hp = [j for j in has_hash if ok(j)]
        if hp:
            res.append(("under-#-bearing", rng.choice(hp)))
        res.append(("top-level", None))
        return [(pl, u) for pl, u in res if ok(u)]

    originals = (libs if lib else std)
    # originals two levels deep or more, not in the last top-level subtree (so that "another subtree" after them exists)
    last_root = tags[-1][0].split("/")[0]
    nested = [i for i in originals if parent_of(i) is not None and parent_of(parent_of(i)) is not None
              and tags[i][0].split("/")[0] != last_root]
    for i in rng.sample(nested, 3 if full else 1):
        for pl, u in placements(i, need_std_parent=not lib):
            node(i, pl, u, own[i].get("inLibrary"))                                   # same schema, every placement
        for pl, u in placements(i, need_std_parent=bool(lib))[-2 if not full else 0:]:
            node(i, pl + ":clash", u, None if lib else other_lib)                     # the other side
    if lib:
        for i in rng.sample([j for j in std if parent_of(j) is not None], 2 if full else 1):
            pls = placements(i, need_std_parent=True)
            for pl, u in (pls if full else rng.sample(pls, 2)):
                node(i, pl + ":standard", u, None)                                    # standard name, standard copy
            for pl, u in (placements(i, False) if full else rng.sample(placements(i, False), 2)):
                node(i, pl + ":library-copy-of-standard", u, lib)                     # library copy of a standard name
    # the other sections with names
    ucs = secs["unitClasses"]
    for sec in ("units", "unitClasses", "unitModifiers", "valueClasses", "attributes"):
        rows = secs[sec]
        if not rows:
            continue
        picks = rng.sample(range(len(rows)), min(len(rows), 3 if full else 1))
        combos = []
        for n_, j in enumerate(picks):
            orig_side = dict(map(tuple, rows[j][1])).get("inLibrary")
            sides = [orig_side, None if orig_side else other_lib] if full else [[orig_side, None if orig_side else other_lib][rng.randrange(2)]]
            combos += [(n_, j, side) for side in sides]
        if sec == "unitClasses":
            # always: a full redeclaration (inLibrary AND further attributes) of a class that has attributes of its own —
            # the near miss of the loader's placeholder form (inLibrary as the ONLY attribute), which is no duplicate
            rich = [j for j, r in enumerate(rows) if [a for a in r[1] if a[0] != "inLibrary"]]
            if rich:
                j = rng.choice(rich)
                side = dict(map(tuple, rows[j][1])).get("inLibrary") or other_lib
                if (j, side) not in [(c[1], c[2]) for c in combos]:
                    combos.append((len(combos), j, side))
        for n_, j, side in combos:
            name, attrs, _d, owner, _pl = rows[j]
            orig_side = dict(map(tuple, attrs)).get("inLibrary")
            if True:
                new_attrs = with_side(attrs, side)
                if sec == "unitClasses" and [a[0] for a in new_attrs] == ["inLibrary"]:
                    # a unit class that repeats an existing name and carries inLibrary as its ONLY attribute is the
                    # loader's placeholder form for adding units to a partner class (_check_if_duplicate), not a
                    # duplicate: nothing is to be reported, so it is not a seed of this fault kind
                    continue
                under = None
                if sec == "units":
                    same = next(k for k, r in enumerate(ucs) if r[0] == owner)
                    under = same if (n_ + bool(side)) % 2 == 0 else rng.randrange(same, len(ucs))
                    owner_new = ucs[under][0]
                    e = [name, new_attrs, "", owner_new, plural(name.lower())]
                else:
                    e = [name, new_attrs, "", "", ""]
                out.append({"k": "dupAt", "t": sec, "orig": j, "place": "same-class" if sec == "units" and under == same
                            else "other-class" if sec == "units" else "section", "under": under, "x": name,
                            "attrs": new_attrs, "e": e, "flipped": bool(orig_side) != bool(side),
                            "expect": DUP_CODES[bool(orig_side) != bool(side)]})
    return out


SEC_LABEL = {"tags": "Tags", "unitClasses": "UnitClasses", "units": "Units", "unitModifiers": "UnitModifiers",
             "valueClasses": "ValueClasses", "attributes": "Attributes", "properties": "Properties"}
DOMAIN_NEW = {"tagDomain": "tags", "unitClassDomain": "unitClasses", "unitDomain": "units",
              "unitModifierDomain": "unitModifiers", "valueClassDomain": "valueClasses"}
DOMAIN_OLD = {"unitClassProperty": "unitClasses", "unitProperty": "units", "unitModifierProperty": "unitModifiers",
              "valueClassProperty": "valueClasses"}
HARMLESS_VALUE = {"suggestedTag": "Event", "relatedTag": "Event", "isPartOf": "Event", "rooted": "Event",
                  "allowedCharacter": "letters", "conversionFactor": "1.0", "unitClass": "timeUnits",
                  "valueClass": "nameClass", "defaultUnits": "s"}


def own_gen83(ms):
    h = ms["header"]
    v = h["withStandard"] or (h["version"] if not h["library"] else "")
    return bool(v and vkey(v) >= (8, 3, 0)) or any(r[0] == "elementDomain" for r in ms["secs"]["properties"])


def own_valid_sections(ms):
    """attribute name -> sections in which it is declared valid, read from the properties of its definition:
    >= 8.3: tagDomain / unitClassDomain / unitDomain / unitModifierDomain / valueClassDomain, elementDomain = everywhere;
    < 8.3: unitClassProperty / unitProperty / unitModifierProperty / valueClassProperty, an attribute with none of the
    four is a tag attribute, elementProperty = everywhere.  Attribute and property definitions take element-wide
    attributes only (attribute definitions also take the property names, which are not attribute definitions)."""
    new = own_gen83(ms)
    out = {}
    for name, props, *_ in ms["secs"]["attributes"]:
        pn = [p for p, _ in props]
        if name in out:
            continue
        if ("elementDomain" if new else "elementProperty") in pn:
            out[name] = set(SECS)
            continue
        table = DOMAIN_NEW if new else DOMAIN_OLD
        secs = {table[p] for p in pn if p in table}
        if not new and not any(p in DOMAIN_OLD for p in pn):
            secs.add("tags")
        out[name] = secs
    return out


def raises_in(a, sec):
    """pairs where the checker selected for the attribute itself raises on that entry class (tag_is_placeholder_check on a
    non-tag, unit_exists outside unit classes): check_compliance raises, nothing is reported"""
    return (a in ("takesValue", "unitClass", "valueClass") and sec != "tags") or (a == "defaultUnits" and sec != "unitClasses")


def gen_undeclared_sweep(rng, ms):
    """every attribute x every section in which it is not declared (one entry each), plus one control per attribute in a
    section where it is declared; packed so that each schema load carries one seeded attribute per entry"""
    valid = own_valid_sections(ms)
    secs = ms["secs"]
    todo = {sec: [] for sec in SECS}
    for a, vs in valid.items():
        for sec in SECS:
            if not secs[sec]:
                continue
            if sec not in vs and not raises_in(a, sec):
                todo[sec].append((a, True))
        # (no declared control for `rooted`: on a tag it is checked at load time - HedFileError in a standard schema)
        ok = [sec for sec in SECS if sec in vs and secs[sec] and not raises_in(a, sec) and a != "rooted"]
        if ok:
            todo[ok[0]].append((a, False))
    raising = [(a, sec) for a, vs in valid.items() for sec in SECS if secs[sec] and sec not in vs and raises_in(a, sec)]
    per_load = {}
    for sec in SECS:
        cand = [i for i, r in enumerate(secs[sec]) if not r[0].endswith("/#")]
        if not cand or not todo[sec]:
            continue
        order = rng.sample(cand, min(len(cand), 12))
        pos = 0
        for a, flag in todo[sec]:
            # the next entry in turn that does not carry the attribute yet (only matters for the declared controls)
            for step in range(len(order)):
                i = order[(pos + step) % len(order)]
                if a not in dict(map(tuple, secs[sec][i][1])):
                    break
            else:
                continue
            per_load.setdefault(pos // len(order), []).append(
                {"t": sec, "i": i, "a": a, "v": HARMLESS_VALUE.get(a), "expect_flag": flag, "entry": secs[sec][i][0]})
            pos += 1
    loads = []
    for k in sorted(per_load):
        edits, seen = [], set()
        for e in per_load[k]:                        # one seeded attribute per entry and load
            if (e["t"], e["i"]) in seen:
                per_load.setdefault(max(per_load) + 1, []).append(e)
                continue
            seen.add((e["t"], e["i"]))
            edits.append(e)
        loads.append({"k": "edits", "l": edits})
    by_attr = {}
    for a, sec in raising:
        i = next(i for i, r in enumerate(secs[sec]) if not r[0].endswith("/#"))
        by_attr.setdefault(a, []).append({"t": sec, "i": i, "a": a, "v": HARMLESS_VALUE.get(a), "expect_flag": None,
                                          "entry": secs[sec][i][0]})
    loads += [{"k": "edits", "l": l, "raising": True} for l in by_attr.values()]
    return loads


def seed_xml_edits(root, sd, els):
    undos = []
    for e in sd["l"]:
        el = els[e["t"]][e["i"]]
        ch = _new_attr(el, e["t"], e["a"], e["v"])
        undos.append((el, ch))
    return lambda: [el.remove(ch) for el, ch in undos]


def compare_edits(ctx, name, sd, mres, root, els, gen):
    """a load with several foreign (or, as controls, declared) attributes, one per entry"""
    case = {"schema": name, "seed": sd}
    undo = seed_xml_edits(root, sd, els)
    try:
        sch = impl_load(root)
        on, off = impl_obs(sch, True), impl_obs(sch, False)
    except Exception as e:
        ctx.count(f"undeclared-sweep:impl-raises:{type(e).__name__}")
        ctx.case((name, json.dumps(sd, sort_keys=True)), nontrivial=False)
        if not any(i[0] == "PYTHON_RAISES" for i in mres["on"]):
            ctx.disagree("Compliance.check ∘ edits = check_compliance (implementation raised)", case, sorted(mres["on"])[:6],
                         f"{type(e).__name__}: {e}"[:300])
        return
    finally:
        undo()
    ctx.case((name, json.dumps(sd, sort_keys=True)), nontrivial=True)
    if sorted(mres["on"]) != on or sorted(mres["off"]) != off:
        ctx.disagree("Compliance.check ∘ edits = check_compliance ∘ from_string (code, severity, section, entry, attribute)",
                     case, {"on": [x for x in sorted(mres["on"]) if x not in on][:6], "off": [x for x in sorted(mres["off"]) if x not in off][:6]},
                     {"on": [x for x in on if x not in mres["on"]][:6], "off": [x for x in off if x not in mres["off"]][:6]})
    for e, mvalid in zip(sd["l"], mres.get("valid", [])):
        if e["expect_flag"] is None:
            continue
        key = f"undeclared-sweep:{'>=8.3' if gen else '<8.3'}:{e['a']}->{e['t']}:{'undeclared' if e['expect_flag'] else 'declared'}"
        ctx.count(key)
        one = {"schema": name, "seed": {"k": "edits", "l": [e]}}
        if mvalid == e["expect_flag"]:
            ctx.disagree("validAttrs = sections read from the attribute definition's properties", one, {"valid": mvalid}, e)
        for label, got in (("on", on), ("off", off)):
            hit = ["SCHEMA_ATTRIBUTE_INVALID", 1, SEC_LABEL[e["t"]], e["entry"], ""] in got
            if hit != e["expect_flag"]:
                ctx.violation("attribute-not-declared-for-section-wrong-verdict", one,
                              {"attribute": e["a"], "section": e["t"], "expected_flagged": e["expect_flag"], "warnings": label,
                               "reported_for_entry": [i for i in got if i[3] == e["entry"]][:4]})
                break


def wire(sd):
    """the request form of a seed (sections by name; `v: null` = valueless attribute)"""
    if sd["k"] == "edits":
        return {"k": "edits", "l": [{"t": e["t"], "i": e["i"], "a": e["a"], "v": e["v"]} for e in sd["l"]]}
    if sd["k"] == "dupAt":
        return {"k": "dupAt", "t": sd["t"], "e": sd["e"]}
    d = {"k": sd["k"], "i": sd["i"], "t": sd.get("t", "tags"), "a": sd.get("a", ""), "v": sd.get("v")}
    if d["v"] is None and sd["k"] != "classAttr":
        d["v"] = ""
    return d


class Session:
    """scratch cache folder (pre-populated from the bundled folder, optionally plus synthetic predecessors)"""

    def __init__(self):
        from hed.schema import hed_cache
        self.hc = hed_cache
        self.old = hed_cache.HED_CACHE_DIRECTORY
        self.dir = tempfile.mkdtemp(prefix="hv_c14_cache_")
        hed_cache.set_cache_directory(self.dir)
        hed_cache.cache_local_versions(self.dir)
        hed_cache.get_library_data.cache_clear()
        hed_cache.get_library_data("")

    def close(self):
        self.hc.HED_CACHE_DIRECTORY = self.old
        self.hc.get_library_data.cache_clear()
        shutil.rmtree(self.dir, ignore_errors=True)


def mbatch(ctx, reqs):
    for attempt in range(3):
        try:
            return ctx.model.batch(reqs)
        except RuntimeError as e:          # the shared driver is being re-linked by another builder
            if attempt == 2:
                raise
            import time
            time.sleep(20)


def compare_case(ctx, name, sd, mres, root, els=None, gen=None):
    """one seeded case: correspondence (model seed+check vs XML edit + hed) and the direct oracle"""
    case = {"schema": name, "seed": sd}
    undo = seed_xml(root, sd, els)
    try:
        sch = impl_load(root)
        on, off = impl_obs(sch, True), impl_obs(sch, False)
    except Exception as e:
        undo()
        undo = None
        ctx.count("impl-raises:" + type(e).__name__)
        m_raises = any(i[0] == "PYTHON_RAISES" for i in mres["on"])
        if not m_raises:
            ctx.disagree("Compliance.check ∘ seed = check_compliance ∘ from_string (implementation raised)", case,
                         sorted(mres["on"])[:6], f"{type(e).__name__}: {e}"[:300])
        return
    finally:
        if undo:
            undo()
    adm = mres["adm"]
    k = sd["k"]
    ctx.case((name, json.dumps(sd, sort_keys=True)), nontrivial=adm,
             sample=case if adm and ctx.rng.random() < 0.02 else None)
    ctx.count(f"{name}:{k}:{'admissible' if adm else 'control'}")
    if sd.get("nested"):
        ctx.count(f"{name}:{k}:nested-library-tag:{'admissible' if adm else 'control'}")
    if adm and gen is not None:
        ctx.extra.setdefault("admissible_cases_by_kind_and_generation", {}).setdefault(k, {"<8.3": 0, ">=8.3": 0})[
            ">=8.3" if gen else "<8.3"] += 1
    if sorted(mres["on"]) != on or sorted(mres["off"]) != off:
        ctx.disagree("Compliance.check ∘ seed = check_compliance ∘ from_string (code, severity, section, entry, attribute)",
                     case, {"on": [x for x in sorted(mres["on"]) if x not in on][:6],
                            "off": [x for x in sorted(mres["off"]) if x not in off][:6]},
                     {"on": [x for x in on if x not in mres["on"]][:6], "off": [x for x in off if x not in mres["off"]][:6]})
    # direct oracle on the implementation's output
    if any(i[1] != 1 for i in off):
        ctx.violation("warnings-off-returned-a-non-error", case, off[:5])
    if [i for i in on if i[1] == 1] != off:
        ctx.violation("warnings-off-not-the-error-subset", case, {"on_errors": [i for i in on if i[1] == 1][:5], "off": off[:5]})
    if "expect_flag" in sd:
        flagged = any(i[0] == "SCHEMA_ATTRIBUTE_VALUE_INVALID" and i[4] == "hedId" and i[3] == sd["entry"] for i in on)
        ctx.count(f"hedId-boundary:{'zero' if sd['boundary'] == 0 else 'nonzero'}:{'outside' if sd['expect_flag'] else 'inside'}")
        if flagged != sd["expect_flag"]:
            ctx.violation("hedId-range-boundary-wrong-verdict", case, {"expected_flagged": sd["expect_flag"], "reported": on[:4]})
        if adm != sd["expect_flag"]:
            ctx.disagree("admissible(hedId) = outside the closed id range of the entry's library (or changed)", case, adm, sd["expect_flag"])
        return on
    if k == "dupAt":
        ctx.count(f"dupAt:{sd['t']}:{sd['place']}:{'clash' if sd['flipped'] else 'same-side'}")
        if not adm:
            ctx.disagree("dupAdmissible holds for a repeated name", case, {"adm": adm}, "expected true")
        for label, got in (("on", on), ("off", off)):
            dup = [i[0] for i in got if i[0] in DUP_CODES and i[2] == ""]
            if dup != [sd["expect"]]:
                ctx.violation("duplicate-name-wrong-code", case, {"expected": [sd["expect"]], "reported": dup, "warnings": label})
        if mres.get("dupCode") != sd["expect"]:
            ctx.disagree("dupCodeOf = expected code from the XML reading", case, mres.get("dupCode"), sd["expect"])
        return on
    if adm:
        code = SPEC_CODE[k]
        if code not in [i[0] for i in on]:
            ctx.violation("seeded-fault-not-reported", case, {"expected": code, "reported": on[:6]},
                          FINDING_HEDID if sd.get("nested") and k == "hedId" else None)
        if k in SURVIVES_OFF and code not in [i[0] for i in off]:
            ctx.violation("error-fault-lost-with-warnings-off", case, {"expected": code, "reported": off[:6]})
        if k not in SURVIVES_OFF:
            ctx.count("demoted-to-warning:" + k)
    return on


class _PastCompliance(Exception):
    """raised by the stub that replaces the first reload of the script's save/reload stage"""


def script_reports(path):
    """`hed.scripts.script_util.validate_schema(path)` (the body of the validate_schemas script) up to the end of its
    compliance stage: the report strings if it stopped there, None if it went on to the save/reload round trips (those
    belong to C05; `from_string` inside script_util is replaced by a stub that raises, so nothing of them runs)"""
    from hed.scripts import script_util

    def stub(*a, **k):
        raise _PastCompliance()
    old = script_util.from_string
    script_util.from_string = stub
    try:
        return script_util.validate_schema(path)
    except _PastCompliance:
        return None
    finally:
        script_util.from_string = old


def script_route(ctx, name, root, els, seeds, answers, base_on, workdir):
    """the validate_schemas route (anchor hed/scripts/script_util.py): the script must stop at its compliance stage with a
    report exactly when check_compliance() with warnings on reports something other than the prerelease notice - for the
    released schema and for one admissible seeded fault of each kind - and the report must name the fault's code"""
    path = os.path.join(workdir, f"HED_c14_{name.replace('.', '_')}.xml")

    def run(label, expect_codes):
        with open(path, "w", encoding="utf-8") as f:
            f.write(ET.tostring(root, encoding="unicode"))
        try:
            rep = script_reports(path)
        except Exception as e:
            ctx.violation("validate-schema-script-raised", {"schema": name, "seed": label}, f"{type(e).__name__}: {e}"[:300])
            return
        ctx.case((name, "script", json.dumps(label, sort_keys=True)), nontrivial=bool(expect_codes))
        ctx.count(f"script-route:{label['k'] if isinstance(label, dict) else label}:{'must-report' if expect_codes else 'must-pass'}")
        reported = bool(rep)
        if reported != bool(expect_codes):
            ctx.violation("validate-schema-script-disagrees-with-check-compliance", {"schema": name, "seed": label},
                          {"check_compliance_codes": sorted(set(expect_codes))[:4], "script_report": (rep or ["(went on to the save/reload stage)"])[0][:200]})
        elif reported and not any(c in rep[0] for c in expect_codes):
            ctx.violation("validate-schema-script-report-lacks-the-code", {"schema": name, "seed": label},
                          {"expected_one_of": sorted(set(expect_codes))[:4], "script_report": rep[0][:300]})
    run("released", [i[0] for i in base_on if i[0] != "SCHEMA_PRERELEASE_VERSION_USED"])
    done = set()
    for sd, mres in zip(seeds, answers):
        k = sd["k"]
        if k in done or k not in SPEC_CODE or not mres.get("adm"):
            continue
        done.add(k)
        undo = seed_xml(root, sd, els)
        try:
            run({kk: vv for kk, vv in sd.items() if kk != "e"}, [SPEC_CODE[k]])
        finally:
            undo()
    try:
        os.remove(path)
    except OSError:
        pass


def run_schema(ctx, sess, name, seeded, n, full, per=None, controls=True, sweep=False):
    from hed.schema.hed_schema_entry import pluralize
    root = ET.parse(schema_xml.bundled()[name]).getroot()
    ms = read_model_schema(root, pluralize.plural)
    env = read_env(sess.dir, ms, all_text(ms))
    seeds = gen_seeds(ctx.rng, ms, n, full, per, controls) if seeded else []
    if seeded:
        seeds += gen_dup_seeds(ctx.rng, ms, pluralize.plural, full and name in SEEDED)
        seeds += gen_hedid_boundaries(ctx.rng, ms, env["ranges"], full and name in SEEDED)
    if sweep:
        seeds += gen_undeclared_sweep(ctx.rng, ms)
    ans = mbatch(ctx, [{"op": "c14.run", "schema": ms, "env": env, "seeds": [wire(s) for s in seeds]}])[0]
    if "bad-op" in ans:
        raise RuntimeError(f"model rejected {name}: {ans}")
    # released schema: no error (direct oracle), model = implementation, hypotheses of the theorems hold
    sch = impl_load(root)
    on, off = impl_obs(sch, True), impl_obs(sch, False)
    ctx.case((name, "released"), nontrivial=True, sample={"schema": name, "issues_with_warnings": len(on)})
    ctx.count(f"released:{name}:warnings={len(on)}")
    if [i for i in on if i[1] == 1] or off:
        ctx.violation("released-schema-has-compliance-error", {"schema": name}, (off or on)[:5])
    if sorted(ans["base"]["on"]) != on or sorted(ans["base"]["off"]) != off:
        ctx.disagree("Compliance.check = check_compliance on the released schema", {"schema": name},
                     [x for x in sorted(ans["base"]["on"]) if x not in on][:6], [x for x in on if x not in ans["base"]["on"]][:6])
    if not ans["compliant"]:
        ctx.disagree("Compliant (no error, ranges declared) holds for the released schema", {"schema": name},
                     {"compliant": ans["compliant"], "stdRanges": ans["stdRanges"]}, "expected true")
    ctx.count(f"gen83={ans['gen83']}")
    els = elements(root)
    for sd, mres in zip(seeds, ans["seeds"]):
        if sd["k"] == "edits":
            compare_edits(ctx, name, sd, mres, root, els, ans["gen83"])
        else:
            compare_case(ctx, name, sd, mres, root, els, ans["gen83"])
        ctx.check_time()
    script_route(ctx, name, root, els, seeds, ans["seeds"], on, sess.dir)
    return ms, env


def run_changed_hedid(ctx, n):
    """'changed hedId' needs a predecessor that carries ids: none is bundled, so a synthetic HED8.2.9.xml
    (= 8.3.0 with another version number) is placed in a scratch cache folder"""
    from hed.schema.hed_schema_entry import pluralize
    from hed.schema import hed_schema_io
    sess = Session()
    try:
        src = schema_xml.bundled()["8.3.0"]
        text = src.read_text().replace('version="8.3.0"', 'version="8.2.9"', 1)
        with open(os.path.join(sess.dir, "HED8.2.9.xml"), "w") as f:
            f.write(text)
        hed_schema_io.load_schema_version.cache_clear() if hasattr(hed_schema_io.load_schema_version, "cache_clear") else None
        root = ET.parse(src).getroot()
        ms = read_model_schema(root, pluralize.plural)
        env = read_env(sess.dir, ms, all_text(ms))
        if not env["prev"]:
            raise RuntimeError("synthetic predecessor carries no ids")
        seeds = []
        for sec in SECS:
            rows = [i for i, r in enumerate(ms["secs"][sec]) if any(a == "hedId" for a, _ in r[1])]
            for i in pick(ctx.rng, rows, n if sec == "tags" else max(2, n // 6), False):
                seeds.append({"k": "hedId", "t": sec, "i": i, "v": ctx.rng.choice(["HED_0012999", "HED_0019998"])})
        old_ids = {}
        for lib, sec, name_, v in env["prev"]:
            try:
                old_ids[(sec, name_)] = int(v[4:] if v.startswith("HED_") else v)
            except ValueError:
                pass
        seeds += gen_hedid_boundaries(ctx.rng, ms, env["ranges"], False, old_ids)       # entries WITH an id in the previous release
        ans = mbatch(ctx, [{"op": "c14.run", "schema": ms, "env": env, "seeds": [wire(s) for s in seeds]}])[0]
        for sd, mres in zip(seeds, ans["seeds"]):
            compare_case(ctx, "8.3.0+predecessor", sd, mres, root)
            ctx.count("hedId:changed-vs-synthetic-predecessor")
            ctx.check_time()
    finally:
        sess.close()


def run(ctx):
    ctx.extra["rule"] = ("9 released schemas checked as they are; on 8.3.0, 8.2.0, score_2.0.0 (thorough: a few positions on the "
                         "other six too) one fault per case, kinds x positions (quick: seeded random sample of 2 nodes per kind and 1 entry of three of the "
                         "other six sections per kind, each schema parsed once and edited in place, counts per kind and generation under "
                         "admissible_cases_by_kind_and_generation; "
                         "thorough: every unit class / modifier / value class / unit / attribute / property entry and 30 nodes per "
                         "kind) x fault values, seeded independently in the model and "
                         "in the XML text; non-trivial = the model's `admissible` holds for the position (others are controls, "
                         "compared but not subject to the oracle)")
    spec = spec_table_in_lean()
    ctx.obligation("Spec.schemaCode (Lean) = SPEC_CODE (harness oracle)", spec == SPEC_CODE, json.dumps(spec))
    ctx.notes.append("every attribute-rule fault (8 of the 10 kinds) is reported at WARNING severity: _run_validators demotes "
                     "all checker issues; with warnings off only duplicate-node and undeclared-attribute faults are returned "
                     "(observation; the property's clause 'reported with the code' is checked with warnings on)")
    ctx.notes.append("plural forms of unit names (inflect), Unicode classes of non-ASCII characters, released versions in the "
                     "cache folder, library_data.json and the ids of the previous release are data given to the model")
    ctx.notes.append("for seeded schemas the model's warnings-off list is the error-severity subset of its warnings-on list "
                     "(theorem errors_only); Compliance.check with warnings off is itself run on the 9 released schemas")
    ctx.notes.append("fix aa5708e (library of a nested library tag = nearest inLibrary value) is followed by the model; the old "
                     "behaviour is kept as idLibOld / vHedIdOld with theorem hedid_nested_library_counterexample; nested library "
                     "tags of score_2.0.0 are always among the hedId / deprecatedFrom positions")
    ctx.notes.append("duplicate names (dupAt): one more node / unit / unit class / modifier / value class / attribute with an "
                     "existing name, for nodes as sibling, one level up, one level down, in another subtree, below a #-bearing "
                     "node and at top level, as same-side copy and as library-vs-standard clash; the exact code (DUPLICATE_NODE "
                     "vs LIBRARY_INVALID) is expected from our own reading of the inLibrary attributes, warnings on and off; the "
                     "copy follows the original in document order (the model appends it to the section); histogram keys dupAt:*")
    ctx.notes.append("hedId boundaries: 0, start-1, start, end-1, end, end+1 of the entry's own library range and the first id of "
                     "another library, from library_data.json; expected flagged iff outside the closed interval [start, end] "
                     "(verify_tag_id: new_id < start or new_id > end), whatever the truthiness of the number; entries without a "
                     "previous id in every tier, with one (synthetic predecessor: also flagged when different) in the thorough tier")
    ctx.notes.append("attribute-not-declared sweep: every attribute definition x every section in which our own reading of its "
                     "properties (old style: unitClassProperty / unitProperty / unitModifierProperty / valueClassProperty, none = "
                     "tag attribute, elementProperty = everywhere; >= 8.3: the *Domain properties) does not declare it, one entry "
                     "each, plus one declared control per attribute, packed one seeded attribute per entry and load; quick: 8.2.0 "
                     "and 8.3.0, thorough: all nine schemas; pairs whose own checker raises on that entry class (class attributes "
                     "on non-tags, defaultUnits outside unit classes) are only compared for 'both raise'; histogram undeclared-sweep:*")
    ctx.notes.append("script route (anchors hed/scripts/validate_schemas.py, script_util.py): validate_schema(path) is run on a temp "
                     "copy of every released schema and, per seeded schema, on one admissible fault of each of the ten kinds; it must "
                     "stop at its compliance stage with a report naming the fault's code exactly when check_compliance (warnings on, "
                     "prerelease notice aside) reports something; the save/reload round trips after that stage are stubbed out (C05)")
    ctx.notes.append("hed cache = scratch folder pre-populated from the bundled schema_data (offline)")
    full = not ctx.quick()
    n = 2 if ctx.quick() else 30
    sess = Session()
    try:
        for name in RELEASED:
            if name in SEEDED:
                run_schema(ctx, sess, name, True, n, full, per=None if full else 1, controls=full,
                           sweep=full or name in ("8.2.0", "8.3.0"))
            else:
                run_schema(ctx, sess, name, full, 3, False, sweep=full)
    finally:
        sess.close()
    if full:
        run_changed_hedid(ctx, 30)
        ctx.extra["changed_hedId"] = "correspondence run against a synthetic predecessor HED8.2.9.xml in a scratch cache (thorough tier)"
    else:
        ctx.extra["changed_hedId"] = ("not run in the quick tier: covered by theorem fault_hedId (idChanged branch) on the model "
                                      "for every predecessor; correspondence with a synthetic predecessor runs in the thorough tier")


def replay(ctx, rec):
    from hed.schema.hed_schema_entry import pluralize
    case = rec.get("case") or (rec.get("disagreements") or [{}])[0].get("case")
    if not case or "schema" not in case:
        print("nothing to replay (obligation-only record):", rec.get("broken_obligations"))
        return
    sess = Session()
    try:
        name = case["schema"]
        if name.endswith("+predecessor"):
            print("replay of a changed-hedId case: run the thorough tier")
            return
        root = ET.parse(schema_xml.bundled()[name]).getroot()
        ms = read_model_schema(root, pluralize.plural)
        env = read_env(sess.dir, ms, all_text(ms))
        sd = case.get("seed")
        if str(rec.get("clause", "")).startswith("validate-schema-script"):
            seeds = [sd] if isinstance(sd, dict) else []
            ans = mbatch(ctx, [{"op": "c14.run", "schema": ms, "env": env, "seeds": [wire(x) for x in seeds]}])[0]
            script_route(ctx, name, root, elements(root), seeds, ans["seeds"], impl_obs(impl_load(root), True), sess.dir)
            print("script route re-run:", len(ctx.violations), "violation(s)", [v["detail"] for v in ctx.violations][:2])
            return
        ans = mbatch(ctx, [{"op": "c14.run", "schema": ms, "env": env, "seeds": [wire(sd)] if sd else []}])[0]
        if not sd:
            sch = impl_load(root)
            print("model:", ans["base"], "\nimpl: ", impl_obs(sch, True))
            return
        mres = ans["seeds"][0]
        if sd["k"] == "edits":
            compare_edits(ctx, name, sd, mres, root, elements(root), ans["gen83"])
            print("edits:", [(e["a"], e["t"], e["entry"], e["expect_flag"]) for e in sd["l"]], "model valid:", mres.get("valid"))
            print("model on:", sorted(mres["on"])[:6])
            return
        undo = seed_xml(root, sd)
        sch = impl_load(root)
        undo()
        print("seed:", sd, "admissible:", mres["adm"])
        print("model on :", sorted(mres["on"])[:10], "\nimpl  on :", impl_obs(sch, True)[:10])
        print("model off:", sorted(mres["off"])[:10], "\nimpl  off:", impl_obs(sch, False)[:10])
        compare_case(ctx, name, sd, mres, root)
    finally:
        sess.close()
