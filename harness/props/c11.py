"""C11 — Units are accepted and converted exactly as the schema defines them.

Vocabulary (unit classes, units, modifiers, attributes) comes from our own XML reader; the model derives
the spelling tables itself.  The implementation side is `HedTag`/`HedString.validate` of the loaded schema.
"""
import json
from decimal import Decimal
from fractions import Fraction

from harness import schema_xml

THEOREMS = [
    "HedVerif.C11.derived_complete",
    "HedVerif.C11.prefix_rule",
    "HedVerif.C11.lookup_name_any_case",
    "HedVerif.C11.lookup_symbol_exact",
    "HedVerif.C11.lookup_symbol_wrong_case",
    "HedVerif.C11.bare_number",
    "HedVerif.C11.unrecognised_unit",
    "HedVerif.C11.accepted_value",
    "HedVerif.C11.own_factor_of_key",
    "HedVerif.C11.value_linear",
    "HedVerif.C11.unitsDistinct_iff",
    "HedVerif.C11.lookup_none_of_not_accepts",
    "HedVerif.C11.lookup_iff_accepts",
    "HedVerif.C11.distinct_no_empty_spelling",
    "HedVerif.C11.bare_number_closed",
    "HedVerif.C11.rpartition_append",
    "HedVerif.C11.own_factor_closed",
    "HedVerif.C11.accepted_check",
    "HedVerif.C11.accept_closed",
    "HedVerif.C11.accept_closed_prefix_unit",
    "HedVerif.C11.reject_closed",
    "HedVerif.C11.toRat_mul",
    "HedVerif.C11.toRat_scale",
    "HedVerif.C11.value_rat",
    "HedVerif.C11.value_linear_rat",
    "HedVerif.C11.accept_value_rat",
    "HedVerif.C11.go_unit_first",
    "HedVerif.C11.unit_first_only_prefix_units",
    "HedVerif.Units.digitsVal_append",
    "HedVerif.Units.takeDigits_append",
    "HedVerif.Units.parse_integer",
    "HedVerif.Units.parse_decimal",
    "HedVerif.Units.parse_fraction",
    "HedVerif.Units.expOf_digits",
    "HedVerif.Units.parse_scientific",
    "HedVerif.Units.parse_sign",
    "HedVerif.Units.parse_double_sign",
    "HedVerif.C11.parse_decimal_rat",
]
BUDGET = {"quick": 900, "thorough": 3600}
NUMS_OK = ["3", "-3", "+3", "3.5", ".5", "3.", "1e3", "1E-3", "0", "007", "12.25e+2"]
NUMS_BAD = ["abc", "3x", "1.2.3", "e3", "--3"]
ALL_SCHEMAS = ["8.3.0", "8.2.0", "8.1.0", "8.0.0", "score_1.1.0", "score_2.0.0", "testlib_2.0.0", "testlib_3.0.0",
               "score_1.0.0", "testlib_1.0.2", "testlib_2.1.0"]


def dec_of(text):
    """factor literal as the code reads it: '^' means 'e' of a float literal ('10^-3' is read as 10e-3)"""
    try:
        d = Decimal(text.replace("^", "e"))
    except Exception:
        return [1, 0]
    sign, digits, exp = d.as_tuple()
    m = int("".join(map(str, digits)))
    return [-m if sign else m, exp]


def vocab_payload(vocab, plural):
    mods = [{"name": m["name"], "forSymbol": "SIUnitSymbolModifier" in m["attrs"],
             "forName": "SIUnitModifier" in m["attrs"],
             "factor": dec_of(m["attrs"].get("conversionFactor", ["1.0"])[0])} for m in vocab["unit_modifiers"]]
    classes = []
    for uc in vocab["unit_classes"]:
        units = []
        for u in uc["units"]:
            a = u["attrs"]
            units.append({"name": u["name"], "isSymbol": "unitSymbol" in a, "isSI": "SIUnit" in a,
                          "isPrefix": "unitPrefix" in a,
                          "factor": dec_of(a["conversionFactor"][0]) if "conversionFactor" in a else None,
                          "plural": plural(u["name"].lower())})
        d = uc["attrs"].get("defaultUnits", [None])[0]
        classes.append({"name": uc["name"], "default": d, "units": units})
    return mods, classes


def frac(dec):
    m, e = dec
    return Fraction(m) * (Fraction(10) ** e)


def spellings(rng, u, mods):
    """(text, accepted?) spellings of one unit"""
    out = []
    a = u["attrs"]
    sym = "unitSymbol" in a
    name = u["name"]
    if sym:
        bases = [(name, True)]
        if name.swapcase() != name:
            bases.append((name.swapcase(), None))      # None: verdict left to model/implementation agreement
    else:
        from_name = name.lower()
        bases = [(from_name, True), (from_name.capitalize(), True), (from_name.upper(), True)]
    for b, ok in bases:
        out.append((b, ok, None))
    if not sym:
        out.append(("__plural__", True, None))
    prefs = [m for m in mods if ("SIUnitSymbolModifier" if sym else "SIUnitModifier") in m["attrs"]] if "SIUnit" in a else []
    for m in rng.sample(prefs, min(4, len(prefs))):
        out.append((m["name"] + bases[0][0], True, m))
        if sym:
            # a prefixed symbol in another case (`MS`, `Kg`): folds onto the derived key but is not the declared symbol
            full = m["name"] + name
            legit = {mm["name"] + name for mm in prefs} | {name}
            for alt in sorted({full.upper(), full.lower(), full.swapcase(), full.capitalize()} - legit):
                out.append((alt, None, None))
    wrong = [m for m in mods if ("SIUnitModifier" if sym else "SIUnitSymbolModifier") in m["attrs"]]
    if wrong:
        out.append((rng.choice(wrong)["name"] + bases[0][0], None, None))
    if "SIUnit" not in a and prefs == [] and mods:
        out.append((rng.choice(mods)["name"] + bases[0][0], None, None))
    return out


def accept_sets(vocab, plural):
    """class -> (exact symbol spellings, folded name spellings): the property statement as a reference"""
    out = {}
    mods = vocab["unit_modifiers"]
    for uc in vocab["unit_classes"]:
        exact, folded = set(), set()
        for u in uc["units"]:
            a = u["attrs"]
            if "unitSymbol" in a:
                exact.add(u["name"])
                if "SIUnit" in a:
                    exact.update(m["name"] + u["name"] for m in mods if "SIUnitSymbolModifier" in m["attrs"])
            else:
                base = {u["name"].lower(), plural(u["name"].lower())}
                folded.update(base)
                if "SIUnit" in a:
                    folded.update(m["name"] + b for b in base for m in mods if "SIUnitModifier" in m["attrs"])
        out[uc["name"]] = (exact, folded)
    return out


def prefix_accept_sets(vocab, plural):
    """class -> spellings of its unitPrefix units (the only ones that may stand before the number), from the XML"""
    sub = dict(vocab, unit_classes=[dict(uc, units=[u for u in uc["units"] if "unitPrefix" in u["attrs"]])
                                    for uc in vocab["unit_classes"]])
    return accept_sets(sub, plural)


def ref_accepts(acc, cnames, sp):
    return any(sp in acc[c][0] or sp.casefold() in acc[c][1] for c in cnames)


def key_shadowed(ucs, cnames, unit_txt, u):
    """the same spelling is also derived by another unit of the tag's classes (then which factor applies is the
    dictionary's business; compared with the model only)"""
    n = 0
    for c in cnames:
        for uu in ucs[c]["units"]:
            if uu is u:
                continue
            if unit_txt == uu["name"] or unit_txt.casefold() == uu["name"].casefold():
                n += 1
    return n > 0


def impl_eval(HedTag, HedString, schema, tagname, ext):
    text = f"{tagname}/{ext}"
    tag = HedTag(text, schema)
    sv, unit = tag.get_stripped_unit_value(tag.extension)
    try:
        v = tag.value_as_default_unit()
        val = "absent" if v is None else float(v)
    except Exception as e:
        val = {"raises": type(e).__name__}
    hs = HedString(text, schema)
    issues = hs.validate()
    codes = sorted(i["code"] for i in issues if i["code"] in ("UNITS_INVALID", "UNITS_MISSING", "VALUE_INVALID"))
    return {"stripped": sv, "unit": unit, "issues": codes, "value": val}, issues


def same_value(mv, iv):
    if isinstance(mv, dict) and "v" in mv:
        if not isinstance(iv, float):
            return False
        f = float(frac(mv["v"]))
        return abs(f - iv) <= 1e-9 * max(1.0, abs(f))
    return mv == iv


def check_classes(ctx, name, schema, HedTag, ccases, answers, acc, pre_acc):
    """`HedTag._get_tag_units_portion` on one unit class at a time against `Units.stripped`, and the property's rule:
    a unit after the number is split off iff it is an accepted spelling of a unit WITHOUT unitPrefix, a unit before
    the number iff it is an accepted spelling of a unit WITH unitPrefix."""
    from hed.schema.hed_schema_constants import HedSectionKey
    for (cn, ext, n, sp, pos), m in zip(ccases, answers):
        case = {"schema": name, "unit_class": cn, "ext": ext}
        try:
            entry = schema.get_tag_entry(cn, HedSectionKey.UnitClasses)
            value, units, unit_entry = HedTag._get_tag_units_portion(ext, {cn: entry})
        except Exception as e:
            ctx.violation("units-portion-raised", case, f"{type(e).__name__}: {e}")
            continue
        ctx.case((name, "class", cn, ext), nontrivial=True)
        ctx.count("class-level:" + pos)
        got = [value, units] if unit_entry is not None and value else [ext, None]
        if [m["stripped"], m["unit"]] != got:
            ctx.disagree("Units.stripped = HedTag._get_tag_units_portion (one class)", case, [m["stripped"], m["unit"]], got)
        if pos in ("last", "first"):
            is_pre = ref_accepts(pre_acc, [cn], sp)
            accepted = ref_accepts(acc, [cn], sp)
            want = accepted and (is_pre if pos == "first" else not is_pre)
            if want:
                ctx.count("class-level:accepted-" + pos + ("-prefix-unit" if is_pre else ""))
            if (got == [n, sp]) != want or (not want and got != [ext, None]):
                ctx.violation("unit-position-rule", case, {"impl": got, "expected_split": want, "unitPrefix": is_pre})
        elif pos == "unknown-first" and got != [ext, None]:
            ctx.violation("unknown-unit-first-split-off", case, {"impl": got})


def run_schema(ctx, name, full):
    from hed import HedTag, HedString, load_schema_version
    from hed.schema.hed_schema_entry import pluralize
    vocab = schema_xml.read(schema_xml.bundled()[name])
    schema = load_schema_version(name)
    mods, classes = vocab_payload(vocab, pluralize.plural)
    # value-taking tags with unit classes
    tags = []
    for t in vocab["tags"]:
        if t["long"].endswith("/#") and "unitClass" in t["attrs"]:
            parent = t["long"][:-2].split("/")[-1]
            tags.append((parent, t["attrs"]["unitClass"], "numericClass" in t["attrs"].get("valueClass", []),
                         t["attrs"].get("valueClass", [])))
    if not full:
        tags = ctx.rng.sample(tags, min(len(tags), 10))
    ucs = {uc["name"]: uc for uc in vocab["unit_classes"]}
    acc = accept_sets(vocab, pluralize.plural)
    pre_acc = prefix_accept_sets(vocab, pluralize.plural)
    cases = []
    for tagname, cnames, numeric, vcs in tags:
        if set(vcs) - {"numericClass"}:
            continue   # other value classes (name/text/dateTime) are not in the C11 model
        for cn in cnames:
            for u in ucs[cn]["units"]:
                for sp, ok, mod in spellings(ctx.rng, u, vocab["unit_modifiers"]):
                    if sp == "__plural__":
                        sp = pluralize.plural(u["name"].lower())
                    n = ctx.rng.choice(NUMS_OK)
                    pre = "unitPrefix" in u["attrs"]
                    if ok is None and " " not in sp:
                        ok = True if ref_accepts(acc, cnames, sp) else "bad"
                    ext = f"{sp} {n}" if pre else f"{n} {sp}"
                    cases.append((tagname, cnames, numeric, ext, ok, (u, mod) if ok is True else u, "unit"))
                    if ctx.rng.random() < 0.15:
                        cases.append((tagname, cnames, numeric, f"{ctx.rng.choice(NUMS_BAD)} {sp}", None, u, "badnum"))
                    if " " not in sp:
                        # the same spelling on the other side of the number: a unit may stand BEFORE the number iff it
                        # carries unitPrefix (own XML reading), and a unitPrefix unit may not stand after it
                        n2 = ctx.rng.choice(NUMS_OK)
                        if pre:
                            cases.append((tagname, cnames, numeric, f"{n2} {sp}", "bad", None, "prefixunit-last"))
                        else:
                            first_ok = ref_accepts(pre_acc, cnames, sp)
                            cases.append((tagname, cnames, numeric, f"{sp} {n2}", None if first_ok else "bad", None,
                                          "unit-first"))
                        if ctx.rng.random() < 0.2:
                            cases.append((tagname, cnames, numeric, f"{sp} {n2} {sp}", None, None, "unit-both-sides"))
        for n in ctx.rng.sample(NUMS_OK, 3):
            cases.append((tagname, cnames, numeric, n, "bare", None, "bare"))
        other = [u["name"] for c, uc in ucs.items() if c not in cnames for u in uc["units"]]
        for w in [ctx.rng.choice(other) if other else "zz", "zzunit", "3"]:
            cases.append((tagname, cnames, numeric, f"3 {w}", "bad", None, "wrongunit"))
        cases.append((tagname, cnames, numeric, "3ms", None, None, "nospace"))
        cases.append((tagname, cnames, numeric, f"zzunit {ctx.rng.choice(NUMS_OK)}", "bad", None, "unknown-unit-first"))
    # class level: every unit class (also those no bundled tag uses, e.g. currencyUnits with the prefix-type unit `$`),
    # every unit, spelling samples, written after and before the number and on both sides
    ccases = []
    for cn, uc in ucs.items():
        for u in uc["units"]:
            for sp, ok, mod in spellings(ctx.rng, u, vocab["unit_modifiers"]):
                if sp == "__plural__":
                    sp = pluralize.plural(u["name"].lower())
                if " " in sp:
                    continue
                n = ctx.rng.choice(NUMS_OK)
                ccases += [(cn, f"{n} {sp}", n, sp, "last"), (cn, f"{sp} {n}", n, sp, "first")]
                if ctx.rng.random() < 0.2:
                    ccases.append((cn, f"{sp} {n} {sp}", None, sp, "both"))
        ccases.append((cn, "zzunit 3", None, "zzunit", "unknown-first"))
    reqs = [{"op": "c11.schema", "name": name, "mods": mods, "classes": classes}] + \
        [{"op": "c11.eval", "schema": name, "classes": c[1], "numeric": c[2], "ext": c[3]} for c in cases] + \
        [{"op": "c11.eval", "schema": name, "classes": [c[0]], "numeric": False, "ext": c[1]} for c in ccases]
    ans = ctx.model.batch(reqs)
    check_classes(ctx, name, schema, HedTag, ccases, ans[1 + len(cases):], acc, pre_acc)
    ans = ans[:1 + len(cases)]
    for c in ans[0]["classes"]:
        ctx.count(f"{name}:class-functional={c['functional']},emptyKey={c['emptyKey']}")
        ctx.count(f"class-unitsDistinct={c['unitsDistinct']}")
        ctx.extra.setdefault("units_distinct", {})[f"{name}/{c['name']}"] = c["unitsDistinct"]
        if not c["unitsDistinct"]:
            why = [k for k in ("functional", "nonEmptyKeys", "nameKeysFolded", "symbolsApart") if not c[k]]
            ctx.count(f"{name}:class-not-unitsDistinct:{c['name']}:" + ",".join(why))
            ctx.notes.append(f"{name}/{c['name']}: UnitsDistinct fails ({', '.join(why)}) - the closed theorems "
                             "accept_closed/bare_number_closed do not apply to this class")
        if not c["functional"] or c["emptyKey"]:
            ctx.notes.append(f"{name}/{c['name']}: derived table not functional or has an empty key - theorems' hypotheses fail there")
    for (tagname, cnames, numeric, ext, ok, u, kind), m in zip(cases, ans[1:]):
        mod = None
        if isinstance(u, tuple):
            u, mod = u
        try:
            r, issues = impl_eval(HedTag, HedString, schema, tagname, ext)
        except Exception as e:
            ctx.violation("unit-check-raised", {"schema": name, "tag": tagname, "ext": ext}, f"{type(e).__name__}: {e}")
            continue
        case = {"schema": name, "tag": tagname, "ext": ext}
        ctx.case((name, tagname, ext), nontrivial=kind != "bare", sample=case if kind in ("unit", "wrongunit") and ctx.rng.random() < 0.01 else None)
        ctx.count("kind:" + kind)
        mm = dict(m)
        if mm["stripped"] != r["stripped"] or mm["unit"] != r["unit"] or sorted(mm["issues"]) != r["issues"] \
                or not same_value(mm["value"], r["value"]):
            ctx.disagree("Units.stripped/check/valueAsDefault = HedTag/validate", case, mm, r)
        # direct oracle on the implementation
        if ok is True and u is not None and ref_accepts(acc, cnames, (ext.split(" ")[0] if "unitPrefix" in u["attrs"] else ext.split(" ", 1)[1])) is False and " " not in u["name"]:
            ctx.count("reference-disagrees-with-generator")
        if ok is True:
            if "UNITS_INVALID" in r["issues"] or "UNITS_MISSING" in r["issues"]:
                # a unit name that contains a blank can never be matched (the text is split at its last blank)
                sig = "C11-unit-name-with-blank" if " " in u["name"] else None
                ctx.violation("declared-spelling-not-accepted", case, r, sig)
            elif "conversionFactor" in u["attrs"]:
                if not isinstance(r["value"], float):
                    ctx.violation("accepted-spelling-value-undefined", case, r)
                else:
                    # linear in the number: compare with the same spelling and number 1
                    unit_txt = ext.split(" ")[0] if "unitPrefix" in u["attrs"] else ext.split(" ", 1)[1]
                    one = f"{unit_txt} 1" if "unitPrefix" in u["attrs"] else f"1 {unit_txt}"
                    v1 = HedTag(f"{tagname}/{one}", schema).value_as_default_unit()
                    num = ext.split(" ")[1] if "unitPrefix" in u["attrs"] else ext.split(" ")[0]
                    if v1 is None or abs(v1 * float(num) - r["value"]) > 1e-9 * max(1.0, abs(r["value"])):
                        ctx.violation("value-not-linear-in-number", case, {"v": r["value"], "v1": v1})
                    # = number x unit factor x prefix factor, factors read from the XML by our own reader
                    want = Fraction(Decimal(num)) * frac(dec_of(u["attrs"]["conversionFactor"][0])) * \
                        (frac(dec_of(mod["attrs"].get("conversionFactor", ["1.0"])[0])) if mod else 1)
                    sole = sum(1 for c in cnames for uu in ucs[c]["units"]) >= 1
                    if sole and abs(float(want) - r["value"]) > 1e-9 * max(1.0, abs(float(want))) and \
                            not key_shadowed(ucs, cnames, unit_txt, u):
                        ctx.violation("value-not-number-times-factors", case, {"v": r["value"], "expected": float(want)})
        elif ok == "bare":
            if r["issues"] != ["UNITS_MISSING"]:
                ctx.violation("bare-number-not-only-missing-unit-warning", case, r)
            if any(i["code"] == "UNITS_MISSING" and i["severity"] == 1 for i in issues):
                ctx.violation("missing-unit-not-a-warning", case, r)
        elif ok == "bad":
            if kind == "unit" and "unitPrefix" in u["attrs"]:
                pass   # a wrong prefix-unit text leaves no blank-separated unit: verdict compared with the model only
            elif "UNITS_INVALID" not in r["issues"]:
                ctx.violation("unknown-unit-not-reported", case, r)
            if r["value"] != "absent":
                ctx.violation("unknown-unit-value-not-absent", case, r)
    ctx.check_time()


def run(ctx):
    ctx.extra["rule"] = ("every value-taking numeric tag with unit classes x every unit x {as declared, case variants, plural, "
                         "permitted prefixes, wrong-kind prefixes} x numeric literals, plus bare numbers, wrong-class units, "
                         "unknown units, malformed numbers; every spelling also on the other side of the number (unit first is legal iff the unit "
                         "carries unitPrefix), on both sides, and an unknown unit first; non-trivial = has a unit text")
    ctx.notes.append("plural forms come from the implementation's own pluralizer (inflect): data, not modelled")
    ctx.notes.append("a factor literal '10^n' is read by the code as float('10en') = 10^(n+1); the model follows the code "
                     "(8.3.0 itself spells these factors '10e-3' etc.) - observation, see DESIGN.md")
    run_schema(ctx, "8.3.0", True)
    for n in ALL_SCHEMAS[1:]:
        run_schema(ctx, n, not ctx.quick())


def replay(ctx, rec):
    from hed import HedTag, HedString, load_schema_version
    from hed.schema.hed_schema_entry import pluralize
    case = rec.get("case") or (rec.get("disagreements") or [{}])[0].get("case")
    if not case:
        print("nothing to replay (obligation-only record):", rec.get("broken_obligations"))
        return
    name = case["schema"]
    vocab = schema_xml.read(schema_xml.bundled()[name])
    schema = load_schema_version(name)
    mods, classes = vocab_payload(vocab, pluralize.plural)
    if "unit_class" in case:
        cn, ext = case["unit_class"], case["ext"]
        a = ctx.model.batch([{"op": "c11.schema", "name": name, "mods": mods, "classes": classes},
                             {"op": "c11.eval", "schema": name, "classes": [cn], "numeric": False, "ext": ext}])[1]
        first, _, last = ext.partition(" ")
        pos = "unknown-first" if first == "zzunit" else "both" if ext.count(" ") > 1 else \
            "first" if first not in NUMS_OK else "last"
        n, sp = (last, first) if pos == "first" else (first, last)
        check_classes(ctx, name, schema, HedTag, [(cn, ext, n, sp, pos)], [a], accept_sets(vocab, pluralize.plural),
                      prefix_accept_sets(vocab, pluralize.plural))
        print("replayed", json.dumps(case))
        return
    t = next(t for t in vocab["tags"] if t["long"].endswith("/" + case["tag"] + "/#"))
    a = ctx.model.batch([{"op": "c11.schema", "name": name, "mods": mods, "classes": classes},
                         {"op": "c11.eval", "schema": name, "classes": t["attrs"]["unitClass"],
                          "numeric": "numericClass" in t["attrs"].get("valueClass", []), "ext": case["ext"]}])[1]
    r, _ = impl_eval(HedTag, HedString, schema, case["tag"], case["ext"])
    print("model:", json.dumps(a), "\nimpl: ", json.dumps(r))
    if a["stripped"] != r["stripped"] or a["unit"] != r["unit"] or sorted(a["issues"]) != r["issues"] or not same_value(a["value"], r["value"]):
        ctx.disagree("Units.stripped/check/valueAsDefault = HedTag/validate", case, a, r)
