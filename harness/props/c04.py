"""C04 — Validation outcome does not depend on how an annotation is written.

Direct oracle (relational, no model): for generated annotations over HED 8.3.0 (valid and with one or
several violations, nested to depth 4) and ~8 rewrites of each — respelled tag names (other suffix form of
the path, other letter case; vocabulary read independently by harness/schema_xml.py), blanks added/removed
around commas and parentheses and at the ends, siblings permuted at any level — the multiset of
error-severity codes of `HedString(a, schema).validate()` equals that of `HedString(b, schema).validate()`,
and neither raises.

Model correspondence: `Dup.sortedView` / `Dup.dupIssues` (Lean) against `hs._sorted()` and the
TAG_EXPRESSION_REPEATED issues of `validate()` (which element: kind and canonical key), on trees with
repeated tags/groups over a small pool, in all sibling permutations of groups with <= 4 members; and
`Dup.Scan.scan` against `check_delimiter_issues_in_hed_string` on delimiter/blank strings.
"""
import itertools
import json

from harness import schema_xml

THEOREMS = [
    "HedVerif.C04.order_invariant",
    "HedVerif.C04.repeated_anywhere",
    "HedVerif.C04.no_false_repeat",
    "HedVerif.C04.empty_groups_total",
    "HedVerif.C04.spelling_invariant",
    "HedVerif.C04.spelling_same_node",
    "HedVerif.C04.spacing_invariant",
    "HedVerif.C04.spacing_tag_tokens",
    "HedVerif.C04.order_counterexample",
    "HedVerif.C04.case_counterexample",
    "HedVerif.C04.spelling_counterexample",
    "HedVerif.C04.empty_groups_counterexample",
    "HedVerif.Dup.canon_eq_of_skey",
    "HedVerif.C04.shortClean_adm",
    # growth: the whole validator (Model/Validate.lean), every rule, both values of allow_placeholders
    "HedVerif.C04.construct_starts_nodup",
    "HedVerif.C04.spacing_invariant_text",
    "HedVerif.C04.spacing_invariant_full",
    "HedVerif.C04.order_invariant_full",
    "HedVerif.C04.spelling_invariant_full",
    "HedVerif.C04.rewrite_printed_invariant",
    "HedVerif.C04.rewrite_invariant",
    "HedVerif.C04.rewrite_invariant_text",
    "HedVerif.C04.dup_rule_is_dup_model",
    "HedVerif.Rewrite.validate_sim",
    "HedVerif.Rewrite.validateP_sim",
    "HedVerif.Rewrite.validateP_congr",
    "HedVerif.Rewrite.construct_ev",
    "HedVerif.Rewrite.textIssues_blankRel",
    "HedVerif.Rewrite.textIssues_render",
    "HedVerif.Rewrite.individualPhase_struct",
    "HedVerif.Rewrite.onsetIssues_sim",
    "HedVerif.Rewrite.defItemsOK_of_defPhase",
    "HedVerif.Rewrite.mkTagW_core",
    "HedVerif.C04.textOK_ab",
]
BUDGET = {"quick": 600, "thorough": 3000}

SCHEMA = "8.3.0"
ERROR = 1   # ErrorSeverity.ERROR

# known witnesses (DESIGN.md section 8 #2, #3 and the two found while building): (a, b, which rewrite)
CORPUS = [
    ("(Red,Blue),(Green),(Blue,Red)", "(Red,Blue),(Green),(Red,Blue)", "order"),
    ("(Red,Blue),(Green),(Blue,Red)", "(Green),(Red,Blue),(Blue,Red)", "order"),
    ("Label/ABC, Label/Abd, Label/abc", "Label/ABC, Label/abc, Label/Abd", "order"),
    ("Label/ABC, Informational-property/Label/abc", "Label/ABC, Label/abc", "spelling"),
    ("(Duration/3 s, (Red)), (Blue, (Duration/3 s, (Red)))", "(Duration/3 s, (Red)), (Blue, ((Red), Duration/3 s))", "order"),
    ("(Onset, Def/Mydef, (Red)), (Blue, (Green, (Onset, Def/Mydef, (Red))))",
     "(Onset, Def/Mydef, (Red)), (Blue, (Green, (Def/Mydef, (Red), Onset)))", "order"),
    ("(Definition/X, (Label/#, Red)), (Blue, (Label/#, Red))", "(Definition/X, (Label/#, Red)), (Blue, (Red, Label/#))", "order"),
    ("(),()", "() , ()", "spacing"),
    ("((())),((()))", "((())),((()))", "spacing"),
    ("Red,(Blue,(Green,(Red,Blue))),(((Blue,Red),Green),Blue)", "(((Red,Blue),Green),Blue),Red,(Blue,(Green,(Blue,Red)))", "order"),
    # seed C04-f: a malformed Duration/Delay group written before / after a legal delayed Onset/Offset/Inset group
    ("(Duration/3 s, Blue), (Delay/1 s, Onset, Def/MyDef)", "(Delay/1 s, Onset, Def/MyDef), (Duration/3 s, Blue)", "order"),
    ("(Delay/1 s, Onset, Def/MyDef), (Duration/3 s, Blue)", "(Duration/3 s, Blue), (Delay/1 s, Onset, Def/MyDef)", "order"),
    ("(Offset, Delay/2 s, Def/MyDef), (Delay/3 s, (Blue), (Green))", "(Delay/3 s, (Blue), (Green)), (Offset, Delay/2 s, Def/MyDef)", "order"),
    ("(Delay/1 s, Inset, Def/MyDef), Green, (Duration/3 s, Delay/1 s, Blue, (Red))",
     "(Duration/3 s, Delay/1 s, Blue, (Red)), Green, (Delay/1 s, Inset, Def/MyDef)", "order"),
    ("(Duration/3 s), (Delay/2 s, Def/Mydef, Offset), (Duration/3 s, (Blue), (Red))",
     "(Delay/2 s, Def/Mydef, Offset), (Duration/3 s, (Blue), (Red)), (Duration/3 s)", "order"),
]


# ------------------------------------------------------------------------------ implementation side

# `is_definition = group in all_definition_groups` (hed_validator.py) is a structural, order-sensitive `==`: a group
# written exactly like a group inside a Definition is exempted from the placeholder check
# (fixed in /repo by 5440313, fixes/C04_definition_group_identity.diff; kept as a regression witness)
SIG_DEFGROUP = "C04-definition-group-equality"


def install_recorder():
    """Harness-side instrumentation: keep the internal error kind and positional args on every issue."""
    from hed.errors.error_reporter import ErrorHandler
    if getattr(ErrorHandler, "_verif_c04", False):
        return
    orig = ErrorHandler.format_error

    def fe(error_type, *a, **k):
        r = orig(error_type, *a, **k)
        for i in r:
            i["_kind"] = error_type
            i["_args"] = a
        return r
    ErrorHandler.format_error = staticmethod(fe)
    ErrorHandler._verif_c04 = True


DEFS = "(Definition/Mydef, (Red)), (Definition/Myval/#, (Label/#))"
_DD = {}


def def_dict(schema):
    """a small DefinitionDict so that `Def/Mydef`, `Def/Myval/3` in temporal groups are valid"""
    if id(schema) not in _DD:
        from hed.models import DefinitionDict
        _DD[id(schema)] = DefinitionDict(DEFS, schema)
    return _DD[id(schema)]


def codes_of(text, schema, allow_placeholders=True):
    """sorted error-severity codes, or ('RAISED', type) — the observable of the property"""
    from hed import HedString
    try:
        issues = HedString(text, schema, def_dict(schema)).validate(allow_placeholders=allow_placeholders)
    except Exception as e:   # noqa: BLE001 — any exception is an outcome here
        return ["RAISED:" + type(e).__name__]
    return sorted(i["code"] for i in issues if i["severity"] == ERROR)


def canon_key(obj):
    """harness-side canonical key of a HedTag / HedGroup / nested list (independent of `_sorted`)"""
    from hed.models.hed_tag import HedTag
    if isinstance(obj, HedTag):
        return str(obj).casefold()
    children = obj if isinstance(obj, list) else obj.children
    tags = sorted(canon_key(c) for c in children if isinstance(c, HedTag))
    groups = sorted(canon_key(c) for c in children if not isinstance(c, HedTag))
    return "(" + ",".join(tags + groups) + ")"


def plain(obj):
    """printout of an element of `_sorted()` with `str(tag)`"""
    if isinstance(obj, list):
        return "(" + ",".join(plain(c) for c in obj) + ")"
    return str(obj)


def ref_repeats(group):
    """the property as a reference: in every group (and the top level) each class of members that are
    equal up to spelling and member order, of size m, is reported m-1 times"""
    from hed.models.hed_tag import HedTag
    n, seen = 0, {}
    for c in group.children:
        k = canon_key(c)
        seen[k] = seen.get(k, 0) + 1
        if not isinstance(c, HedTag):
            n += ref_repeats(c)
    return n + sum(m - 1 for m in seen.values())


def tree_json(group):
    """the model's input: every tag as [str(tag), str(tag).casefold(), org_tag.casefold()]"""
    from hed.models.hed_tag import HedTag
    out = []
    for c in group.children:
        if isinstance(c, HedTag):
            out.append([str(c), str(c).casefold(), c.org_tag.casefold()])
        else:
            out.append({"g": tree_json(c)})
    return out


# ------------------------------------------------------------------------------------- vocabulary

class Vocab:
    def __init__(self):
        data = schema_xml.read(schema_xml.bundled()[SCHEMA])
        self.plain, self.value, self.ext_ok, self.ext_no, self.req_child = [], [], [], [], []
        by_long = {t["long"]: t for t in data["tags"]}
        self.unit_classes = {u["name"]: [x["name"] for x in u["units"]] for u in data["unit_classes"]}
        for t in data["tags"]:
            comps = t["long"].split("/")
            if comps[-1] == "#":
                parent = by_long["/".join(comps[:-1])]
                self.value.append((comps[:-1], t["attrs"], parent["attrs"]))
                continue
            a = t["attrs"]
            if "requireChild" in a and "deprecatedFrom" not in a:
                self.req_child.append(comps)
            if any(k in a for k in ("tagGroup", "topLevelTagGroup", "deprecatedFrom", "requireChild", "unique", "required")):
                continue
            if (t["long"] + "/#") in by_long:
                continue
            self.plain.append(comps)
            # extensionAllowed is inherited down the path
            allowed = any("extensionAllowed" in by_long["/".join(comps[:k + 1])]["attrs"] for k in range(len(comps)))
            (self.ext_ok if allowed else self.ext_no).append(comps)

    def value_text(self, rng, attrs, bad):
        ucs = attrs.get("unitClass", [])
        vcs = attrs.get("valueClass", [])
        if ucs:
            units = self.unit_classes.get(ucs[0], [])
            unit = rng.choice(units) if units else "s"
            if bad:
                return rng.choice(["3 xyzunit", "abc " + unit, "3" + unit + unit, unit])
            return rng.choice(["3 ", "0.5 ", "12 "]) + unit if rng.random() < 0.8 else str(rng.randint(1, 9))
        if "numericClass" in vcs:
            return rng.choice(["x1", "1e", "--3"]) if bad else rng.choice(["3", "0.25", "-7"])
        if bad:
            return rng.choice(["a{b", "x~y", "a[b]", "q$#"])
        return rng.choice(["Abc", "abc", "ABC", "My-item_2", "x y"])


# ------------------------------------------------------------------------- abstract annotations
# node = ("t", comps, tail)   vocabulary tag: path components + text appended verbatim ("" or "/value")
#      | ("r", text)          verbatim text (unknown tag, empty tag)
#      | ("g", [nodes])       group

SPECIAL = [  # tags with placement rules, by long path; tail chosen at use
    (["Property", "Organizational-property", "Event-context"], ""),
    (["Property", "Data-property", "Data-value", "Spatiotemporal-value", "Temporal-value", "Duration"], "/3 s"),
    (["Property", "Data-property", "Data-value", "Spatiotemporal-value", "Temporal-value", "Delay"], "/1 s"),
    (["Property", "Data-property", "Data-marker", "Temporal-marker", "Onset"], ""),
    (["Property", "Data-property", "Data-marker", "Temporal-marker", "Offset"], ""),
    (["Property", "Data-property", "Data-marker", "Temporal-marker", "Inset"], ""),
    (["Property", "Organizational-property", "Definition"], "/Mydef"),
    (["Property", "Organizational-property", "Def"], "/Mydef"),
]
UNKNOWN = ["Notatag", "Red/Blue/Green", "Xyz/Abc", "Item/", "/Red", "Red//Blue", "Label/", "Re d", "Red#", "{col}"]
POOL_SMALL = [["Property", "Sensory-property", "Sensory-attribute", "Visual-attribute", "Color", "CSS-color", "Red-color", "Red"],
              ["Property", "Sensory-property", "Sensory-attribute", "Visual-attribute", "Color", "CSS-color", "Blue-color", "Blue"],
              ["Property", "Sensory-property", "Sensory-attribute", "Visual-attribute", "Color", "CSS-color", "Green-color", "Green"]]


def gen_leaf(rng, v, bad_rate):
    r = rng.random()
    if r < bad_rate:   # one violation
        k = rng.randrange(8)
        if k == 0:
            return ("r", rng.choice(UNKNOWN))
        if k == 1:
            return ("t", rng.choice(v.ext_no), "/Myext")
        if k == 2:
            if v.req_child and rng.random() < 0.6:
                return ("t", rng.choice(v.req_child), "")     # requireChild tag without a child
            comps, _, _ = rng.choice(v.value)
            return ("t", comps, "")                      # value-taking tag without a value
        if k == 3:
            comps, attrs, _ = rng.choice(v.value)
            return ("t", comps, "/" + v.value_text(rng, attrs, True))
        if k == 4:
            comps, tail = rng.choice(SPECIAL)
            return ("t", comps, tail)
        if k == 5:
            return ("r", "")                             # empty tag
        if k == 6:
            return ("g", [])                             # empty group
        return ("t", rng.choice(v.ext_ok), "/Myext/Deeper")
    r = rng.random()
    if r < 0.45:
        return ("t", rng.choice(POOL_SMALL), "")
    if r < 0.75:
        return ("t", rng.choice(v.plain), "")
    if r < 0.9:
        comps, attrs, _ = rng.choice(v.value)
        return ("t", comps, "/" + v.value_text(rng, attrs, False))
    return ("t", rng.choice(v.ext_ok), "/" + rng.choice(["Myext", "myext", "Other-ext"]))


def gen_children(rng, v, depth, bad_rate, top):
    n = rng.choice([1, 2, 2, 3, 3, 4, 5] if top else [1, 2, 2, 3, 4])
    out = []
    for _ in range(n):
        if depth > 0 and rng.random() < (0.45 if top else 0.4):
            out.append(("g", gen_children(rng, v, depth - 1, bad_rate, False)))
        else:
            out.append(gen_leaf(rng, v, bad_rate))
    # deliberate repeats: copy a sibling (possibly with its own members permuted / respelled later)
    if out and rng.random() < 0.3:
        src = rng.choice(out)
        out.insert(rng.randrange(len(out) + 1), permute_all(rng, src) if rng.random() < 0.6 else src)
    return out


def gen_annotation(rng, v):
    bad_rate = rng.choice([0.0, 0.0, 0.08, 0.15, 0.3])
    top = gen_children(rng, v, rng.choice([1, 2, 3, 4, 4]), bad_rate, True)
    if rng.random() < 0.12:   # placement rules: a special tag in a top-level group / duplicated unique tag
        comps, tail = rng.choice(SPECIAL)
        grp = ("g", [("t", comps, tail), ("g", [("t", rng.choice(POOL_SMALL), "")])])
        top.insert(rng.randrange(len(top) + 1), grp)
        if rng.random() < 0.4:
            top.insert(rng.randrange(len(top) + 1), ("g", [("t", comps, tail), ("t", rng.choice(v.plain), "")]))
    if rng.random() < 0.06:   # several top-level Duration/Delay groups: well formed, malformed, delayed Onset/Offset/Inset
        for g in gen_temporal_mix(rng, v, rng.choice([2, 2, 3]))[0]:
            top.insert(rng.randrange(len(top) + 1), g)
    r = rng.random()
    if r < 0.2:      # a top-level-only group at top level and a copy of it nested
        plant_top_level_copies(rng, v, top)
    elif r < 0.45:   # any group, copied to another depth
        duplicate_subtree(rng, top)
    return top


SP = {c[-1]: c for c, _ in SPECIAL}


def gen_top_level_group(rng, v):
    """a group led by a top-level-only tag (valid where it stands at top level, an error when nested)"""
    def small():
        return ("t", rng.choice(POOL_SMALL), "")
    inner = ("g", [small()] + ([("t", rng.choice(v.plain), "")] if rng.random() < 0.5 else []))
    dname = rng.choice(["/Mydef", "/Mydef", "/Myval/3", "/Myval/abc"])
    k = rng.randrange(9)
    if k == 0:
        kids = [("t", SP["Duration"], "/3 s"), inner]
    elif k == 1:
        kids = [("t", SP["Delay"], "/1 s"), inner]
    elif k == 2:
        kids = [("t", SP["Duration"], "/2 s"), ("t", SP["Delay"], "/1 s"), inner]
    elif k == 3:
        kids = [("t", SP["Onset"], ""), ("t", SP["Def"], dname)] + ([inner] if rng.random() < 0.6 else [])
    elif k == 4:
        kids = [("t", SP["Offset"], ""), ("t", SP["Def"], dname)]
    elif k == 5:
        kids = [("t", SP["Inset"], ""), ("t", SP["Def"], dname), inner]
    elif k == 6:
        if rng.random() < 0.6:   # a definition with a placeholder in its content
            inner = ("g", [("t", ["Property", "Informational-property", "Label"], "/#")] + inner[1])
            kids = [("t", SP["Definition"], rng.choice(["/Newdef/#", "/Newdef"])), inner]
        else:
            kids = [("t", SP["Definition"], "/Newdef"), inner]
    elif k == 7:
        kids = [("t", SP["Event-context"], ""), small(), ("t", rng.choice(v.plain), "")]
    else:
        kids = [("t", SP["Delay"], "/1 s"), ("t", SP["Onset"], ""), ("t", SP["Def"], dname), inner]
    return ("g", kids)


TIMES = ["/1 s", "/2 s", "/3 s", "/4.5 s", "/250 ms", "/0.5 s"]
DEF_TAILS = ["/Mydef", "/Mydef", "/MyDef", "/Myval/3", "/Myval/abc"]


def gen_temporal_member(rng, v, cls):
    """one top-level Duration/Delay group.  cls: 'ok' = well formed for the Duration/Delay rule (the tag(s) and exactly one
    inner group), 'bad' = malformed for it (an extra tag, or zero / two inner groups), 'delayed' = a legal Delay +
    Onset/Offset/Inset + Def group (the Duration/Delay rule does not apply to it; needs a declared definition)"""
    def small():
        return ("t", rng.choice(POOL_SMALL), "")

    def inner():
        return ("g", [small()] + ([("t", rng.choice(v.plain), "")] if rng.random() < 0.4 else []))
    dur = ("t", SP["Duration"], rng.choice(TIMES))
    dly = ("t", SP["Delay"], rng.choice(TIMES))
    lead = rng.choice([[dur], [dur], [dly], [dur, dly]])
    if cls == "ok":
        kids = lead + [inner()]
    elif cls == "bad":
        k = rng.randrange(6)
        if k == 0:
            kids = lead + [small()]                                  # (Duration/3 s, Blue)
        elif k == 1:
            kids = list(lead)                                        # (Duration/3 s)
        elif k == 2:
            kids = lead + [inner(), inner()]                         # (Duration/3 s, (Blue), (Red))
        elif k == 3:
            kids = [dly, dur, small(), inner()]                      # (Delay/1 s, Duration/2 s, Green, (Blue))
        elif k == 4:
            kids = lead + [small(), inner()]                         # (Duration/3 s, Green, (Blue))
        else:
            kids = lead + [small(), ("t", rng.choice(v.plain), "")]  # two extra tags
    else:
        d = ("t", SP["Def"], rng.choice(DEF_TAILS))
        k = rng.randrange(3)
        if k == 0:
            kids = [dly, ("t", SP["Onset"], ""), d] + ([inner()] if rng.random() < 0.4 else [])
        elif k == 1:
            kids = [dly, d, ("t", SP["Offset"], "")]
        else:
            kids = [dly, ("t", SP["Inset"], ""), d] + ([inner()] if rng.random() < 0.6 else [])
    if rng.random() < 0.4:
        rng.shuffle(kids)
    return ("g", kids)


def gen_temporal_mix(rng, v, n=None):
    """(members, their classes): 2-4 top-level Duration/Delay groups; in three of four at least one legal delayed
    Onset/Offset/Inset group together with at least one group malformed for the Duration/Delay rule"""
    n = n or rng.choice([2, 2, 3, 3, 3, 4])
    if rng.random() < 0.75:
        classes = ["delayed", "bad"] + [rng.choice(["ok", "bad", "delayed", "ok"]) for _ in range(n - 2)]
    else:
        classes = [rng.choice(["ok", "bad", "delayed"]) for _ in range(n)]
    rng.shuffle(classes)
    return [gen_temporal_member(rng, v, c) for c in classes], classes


def gen_temporal_annotation(rng, v):
    """(top, indices of the Duration/Delay groups in it): the mix plus 0-2 other conforming members"""
    members, classes = gen_temporal_mix(rng, v)
    top = list(members)
    for _ in range(rng.choice([0, 0, 1, 1, 2])):
        filler = ("t", rng.choice(POOL_SMALL + [rng.choice(v.plain)]), "") if rng.random() < 0.6 else \
            ("g", [("t", rng.choice(POOL_SMALL), ""), ("t", rng.choice(v.plain), "")])
        top.insert(rng.randrange(len(top) + 1), filler)
    idx = [i for i, n in enumerate(top) if any(n is m for m in members)]
    return top, idx, classes


def top_level_permutations(top, idx):
    """every other written order of the members at positions `idx` (the rest stays where it is)"""
    out = []
    for p in itertools.permutations(idx):
        if list(p) == list(idx):
            continue
        new = list(top)
        for slot, src in zip(idx, p):
            new[slot] = top[src]
        out.append(new)
    return out


def plant_top_level_copies(rng, v, top):
    """the same group once at top level (mark A) and once nested at depth >= 2 (mark B)"""
    import copy
    g = gen_top_level_group(rng, v)
    inner = [n for n in g[1] if n[0] == "g"]
    if g[1][0][1] == SP["Definition"] and inner and rng.random() < 0.6:
        # the definition stays whole at top level; a copy of its *content* group goes elsewhere
        top.insert(rng.randrange(len(top) + 1), g)
        g = ("g", inner[0][1] + [("t", rng.choice(POOL_SMALL), "")]) if rng.random() < 0.3 else inner[0]
        top.insert(rng.randrange(len(top) + 1), ("g", [("t", rng.choice(POOL_SMALL), ""), ("g", copy.deepcopy(g[1]), "B")]))
        return
    a = ("g", g[1], "A")
    w = ("g", copy.deepcopy(g[1]), "B")
    for _ in range(rng.choice([1, 1, 2])):
        filler = [("t", rng.choice(POOL_SMALL + [rng.choice(v.plain)]), "") for _ in range(rng.choice([0, 1, 1, 2]))]
        kids = filler + [w]
        rng.shuffle(kids)
        w = ("g", kids)
    top.insert(rng.randrange(len(top) + 1), a)
    top.insert(rng.randrange(len(top) + 1), w)


def group_paths(nodes, p=()):
    out = []
    for i, n in enumerate(nodes):
        if n[0] == "g":
            out.append(p + (i,))
            out += group_paths(n[1], p + (i,))
    return out


def node_at(nodes, path):
    n = ("g", nodes)
    for i in path:
        n = n[1][i]
    return n


def duplicate_subtree(rng, top):
    """copy a random group to another place at another depth; mark the original A and the copy B
    (identity-versus-equality confusions only show with structurally equal subtrees)"""
    import copy
    paths = group_paths(top)
    if not paths:
        return False
    src = rng.choice(paths)
    dests = [p for p in [()] + paths if len(p) != len(src) - 1 and p[:len(src)] != src]
    if not dests:
        return False
    dst = rng.choice(dests)
    orig = node_at(top, src)
    if len(orig) > 2:
        return False
    parent = node_at(top, src[:-1])[1]
    parent[src[-1]] = ("g", orig[1], "A")
    kids = node_at(top, dst)[1]          # the lists are shared with `top`, so this edits in place
    kids.insert(rng.randrange(len(kids) + 1), ("g", copy.deepcopy(orig[1]), "B"))
    return True


def has_marks(nodes):
    return any(n[0] == "g" and (len(n) > 2 or has_marks(n[1])) for n in nodes)


def depth_of(nodes):
    return max([1 + depth_of(n[1]) for n in nodes if n[0] == "g"], default=0)


def count_tags(nodes):
    return sum(count_tags(n[1]) if n[0] == "g" else 1 for n in nodes)


# ------------------------------------------------------------------------------------- rewrites

def case_variant(rng, s):
    k = rng.randrange(4)
    if k == 0:
        return s
    if k == 1:
        return s.lower()
    if k == 2:
        return s.upper()
    return "".join(c.upper() if rng.random() < 0.5 else c.lower() for c in s)


def spell(rng, node, respell):
    if node[0] == "r":
        return node[1]
    _, comps, tail = node
    if not respell:
        return comps[-1] + tail
    k = rng.randrange(len(comps))
    return case_variant(rng, "/".join(comps[k:])) + tail


def render(rng, nodes, respell=False, spacing=None, top=True):
    """spacing: None = ', ' after commas only; 'min' = no blanks; 'rand' = 0-2 blanks around every delimiter"""
    def sp():
        return " " * rng.choice([0, 0, 1, 1, 2]) if spacing == "rand" else ""
    parts = []
    for n in nodes:
        if n[0] == "g":
            parts.append(sp() + "(" + sp() + render(rng, n[1], respell, spacing, False) + sp() + ")" + sp())
        else:
            parts.append(sp() + spell(rng, n, respell) + sp())
    sep = ", " if spacing is None else ","
    s = sep.join(parts)
    if top and spacing == "rand":
        s = " " * rng.randrange(3) + s + " " * rng.randrange(3)
    return s


def permute_all(rng, node):
    if node[0] != "g":
        return node
    kids = [permute_all(rng, c) for c in node[1]]
    rng.shuffle(kids)
    return ("g", kids) + node[2:]


def permute_marked(rng, nodes, marks, deep=False):
    """reorder (never the identity, if there are >= 2 members) the members of the groups marked with one of
    `marks`, independently of each other; everything else stays as written"""
    out = []
    for n in nodes:
        if n[0] != "g":
            out.append(n)
            continue
        kids = permute_marked(rng, n[1], marks, deep)
        if len(n) > 2 and n[2] in marks:
            if deep:
                kids = [permute_all(rng, c) for c in kids]
            if len(kids) >= 2:
                k = rng.randrange(1, len(kids) + 1)
                kids = kids[::-1] if k == len(kids) else kids[k:] + kids[:k]
        out.append(("g", kids) + n[2:])
    return out


def permute_one(rng, nodes):
    """permute the children of one group (or of the top level), chosen at random"""
    paths = [()]

    def walk(ns, p):
        for i, n in enumerate(ns):
            if n[0] == "g":
                paths.append(p + (i,))
                walk(n[1], p + (i,))
    walk(nodes, ())
    target = rng.choice(paths)

    def rebuild(ns, p):
        if not p:
            ks = list(ns)
            rng.shuffle(ks)
            return ks
        return [("g", rebuild(n[1], p[1:])) + n[2:] if i == p[0] else n for i, n in enumerate(ns)]
    return rebuild(nodes, target)


def rewrites(rng, top, n):
    """(kind, text) rewrites of the annotation `top`"""
    out = [("respell", render(rng, top, respell=True)),
           ("spacing", render(rng, top, spacing="min")),
           ("spacing", render(rng, top, spacing="rand")),
           ("order", render(rng, permute_all(rng, ("g", top))[1])),
           ("order", render(rng, permute_one(rng, top))),
           ("respell+spacing", render(rng, top, respell=True, spacing="rand")),
           ("order+respell", render(rng, permute_all(rng, ("g", top))[1], respell=True)),
           ("order+respell+spacing", render(rng, permute_all(rng, ("g", top))[1], respell=True, spacing="rand"))]
    if has_marks(top):   # structurally equal subtrees: rewrite the copies independently of each other
        deep = rng.random() < 0.5
        out += [("order-nested-copy", render(rng, permute_marked(rng, top, "B", deep))),
                ("order-first-copy", render(rng, permute_marked(rng, top, "A", deep))),
                ("order-both-copies", render(rng, permute_marked(rng, top, "AB", deep))),
                ("order-one-copy+respell+spacing", render(rng, permute_marked(rng, top, rng.choice("AB"), deep),
                                                          respell=True, spacing="rand"))]
        n += 4
    kinds = ["respell", "spacing", "order", "all"]
    while len(out) < n:
        k = rng.choice(kinds)
        t = permute_all(rng, ("g", top))[1] if k in ("order", "all") else (permute_one(rng, top) if rng.random() < 0.3 else top)
        out.append(("order+respell+spacing" if k == "all" else k,
                    render(rng, t, respell=k in ("respell", "all"), spacing="rand" if k in ("spacing", "all") else None)))
    return out[:n]


# ------------------------------------------------------------------------------------- the checks

def check_pair(ctx, schema, base, kind, other, cache=None):
    ca = cache if cache is not None else codes_of(base, schema)
    cb = codes_of(other, schema)
    for text, c in ((base, ca), (other, cb)):
        if c and c[0].startswith("RAISED:"):
            ctx.violation("validation-raised", {"text": text}, c[0])
            return
    if ca != cb:
        ctx.violation(f"codes-differ-after-{kind}-rewrite", {"base": base, "rewrite": other, "kind": kind},
                      {"base_codes": ca, "rewrite_codes": cb})
        return
    if "#" in base:   # second observable: validate(allow_placeholders=False), which differs only where a '#' occurs
        na, nb = codes_of(base, schema, False), codes_of(other, schema, False)
        if na != nb:
            diff = set(na) ^ set(nb) or {c for c in set(na) if na.count(c) != nb.count(c)}
            sig = SIG_DEFGROUP if diff == {"PLACEHOLDER_INVALID"} and "efinition" in base.casefold() and "order" in kind else None
            ctx.violation(f"codes-differ-after-{kind}-rewrite-no-placeholders",
                          {"base": base, "rewrite": other, "kind": kind, "allow_placeholders": False},
                          {"base_codes": na, "rewrite_codes": nb}, signature=sig)


def dup_case(ctx, schema, text, answer):
    """model vs implementation on one string: sorted view, duplicate issues"""
    from hed import HedString
    case = {"dup": text}
    try:
        hs = HedString(text, schema)
        view = [plain(x) for x in hs._sorted()]
        issues = hs.validate()
    except Exception as e:   # noqa: BLE001
        if answer["ok"]:
            ctx.violation("validation-raised", {"text": text}, f"{type(e).__name__}: {e}")
        return
    impl = sorted([["tag" if i["_kind"] == "HED_TAG_REPEATED" else "group", canon_key(i["_args"][0])]
                   for i in issues if i.get("_kind") in ("HED_TAG_REPEATED", "HED_TAG_REPEATED_GROUP")])
    if not answer["ok"]:
        ctx.disagree("Dup.dupIssues raises = validate raises", case, "raises", impl)
        return
    model = sorted(answer["issues"])
    if model != impl:
        ctx.disagree("Dup.dupIssues = TAG_EXPRESSION_REPEATED issues of validate", case, model, impl)
    if answer["view"] != view:
        ctx.disagree("Dup.sortedView = HedGroup._sorted", case, answer["view"], view)
    n_rep = sum(1 for i in issues if i["code"] == "TAG_EXPRESSION_REPEATED")
    if n_rep != len(impl):
        ctx.disagree("TAG_EXPRESSION_REPEATED count", case, len(impl), n_rep)
    ref = ref_repeats(hs)
    if n_rep != ref:
        ctx.violation("repeats-reported-wherever-they-sit", {"text": text, "kind": "repeat"},
                      {"TAG_EXPRESSION_REPEATED": n_rep, "expected": ref})
    return len(impl)


def dup_request(schema, text):
    from hed import HedString
    return {"op": "c04.dup", "top": tree_json(HedString(text, schema))}


DUP_POOL = ["Red", "red", "Blue", "Green", "Label/ABC", "Label/abc", "Label/Abd", "Informational-property/Label/abc",
            "CSS-color/Red-color/Red", "Label/ab"]


def gen_dup_items(rng, depth):
    """a list of 1..4 items over a small pool, groups nested to `depth`"""
    items = []
    for _ in range(rng.choice([1, 2, 2, 3, 3, 4])):
        if depth > 0 and rng.random() < 0.5:
            if rng.random() < 0.12:
                items.append([])
            else:
                items.append(gen_dup_items(rng, depth - 1))
        else:
            items.append(rng.choice(DUP_POOL))
    return items


def dup_text(items, top=True):
    s = ",".join(x if isinstance(x, str) else dup_text(x, False) for x in items)
    return s if top else "(" + s + ")"


def perms_of(items, limit):
    """all permutations of the top level (<= 4 members), inner groups fixed"""
    ps = list(itertools.permutations(items))
    return ps[:limit]


def run_dup(ctx, schema):
    rng = ctx.rng
    n = 250 if ctx.quick() else 4000
    bases = [[["Red", "Blue"], ["Green"], ["Blue", "Red"]], ["Label/ABC", "Label/Abd", "Label/abc"],
             ["Label/ABC", "Informational-property/Label/abc"], [[], []], [[[[]]], [[[]]]], [[[], "Red"], ["Red", []]],
             ["Red", ["Red"]], [["Red", ["Blue", "Green"]], [["Green", "Blue"], "Red"], "Blue"]]
    for _ in range(n):
        bases.append(gen_dup_items(rng, rng.choice([1, 2, 2, 3])))
    texts, groups = [], []
    for b in bases:
        ps = [dup_text(p) for p in perms_of(b, 24)]
        # also every permutation of one inner group with <= 4 members
        for i, x in enumerate(b):
            if isinstance(x, list) and 2 <= len(x) <= 4:
                for p in itertools.permutations(x):
                    ps.append(dup_text(b[:i] + [list(p)] + b[i + 1:]))
                break
        ps = list(dict.fromkeys(ps))
        groups.append((len(texts), len(ps)))
        texts += ps
    for lo in range(0, len(texts), 5000):
        chunk = texts[lo:lo + 5000]
        ans = ctx.model.batch([dup_request(schema, t) for t in chunk])
        for t, a in zip(chunk, ans):
            k = dup_case(ctx, schema, t, a)
            ctx.case(("dup", t), nontrivial=bool(k), sample={"dup": t} if k and len(t) < 60 else None)
            ctx.count("dup-issues-%s" % (k if k is None or k < 3 else "3+"))
        ctx.check_time()
    # oracle on the same material: every permutation of one base gives the same codes
    for start, cnt in groups:
        base = texts[start]
        c0 = codes_of(base, schema)
        for t in texts[start + 1:start + cnt]:
            check_pair(ctx, schema, base, "order", t, cache=c0)
    ctx.extra["dup_strings"] = len(texts)


def run_temporal(ctx, schema, v):
    """annotations with 2-4 top-level Duration/Delay groups (well formed / malformed for the Duration rule / legal delayed
    Onset-Offset-Inset groups with a declared Def), compared in every permutation of those groups and in the usual rewrites"""
    rng = ctx.rng
    nbase, nrw = (110, 4) if ctx.quick() else (1500, 12)
    for _ in range(nbase):
        top, idx, classes = gen_temporal_annotation(rng, v)
        base = render(rng, top)
        c0 = codes_of(base, schema)
        ctx.count("temporal-mix:bases")
        ctx.count("temporal-mix:groups-%d" % len(idx))
        if "delayed" in classes and "bad" in classes:
            ctx.count("temporal-mix:delayed+malformed")
        for c in set(c0):
            ctx.count("temporal-mix:base-code:" + c)
        ctx.case(("rel", base), nontrivial=bool(c0), sample={"base": base, "codes": c0} if c0 and len(base) < 110 and rng.random() < 0.1 else None)
        for new in top_level_permutations(top, idx):
            r = rng.random()
            if r < 0.7:
                kind, text = "order-top-level", render(rng, new)
            elif r < 0.85:
                kind, text = "order-top-level+members", render(rng, [permute_all(rng, n) for n in new])
            else:
                kind, text = "order-top-level+respell+spacing", render(rng, new, respell=True, spacing="rand")
            ctx.count("rewrite:" + kind)
            ctx.evaluations += 1
            check_pair(ctx, schema, base, kind, text, cache=c0)
        for kind, text in rewrites(rng, top, nrw):
            ctx.count("rewrite:" + kind)
            ctx.evaluations += 1
            check_pair(ctx, schema, base, kind, text, cache=c0)
        ctx.check_time()


WS = " \t"


def run_scan(ctx, schema):
    """delimiter scan: model vs implementation; blanks never change the codes"""
    from hed.validator.util.string_util import StringValidator
    sv = StringValidator()
    rng = ctx.rng
    alphabet = ["a", "b", ",", "(", ")", " ", " ", "\t", ",", "("]
    strs = ["", " ", ",", "a,", ",a", "a,,b", "a, ,b", "(a)(b)", "(a) (b)", "a(b)", "a (b)", "(a)b", "( a ) b", "(a,)", "( a , )", "(,a)",
            "a)b", "((a))", "( ( a ) )", ")(", "a, (b", "a ,( b"]
    for n in range(1, 5 if ctx.quick() else 6):
        for t in itertools.product(["a", ",", "(", ")", " "], repeat=n):
            strs.append("".join(t))
    for _ in range(1500 if ctx.quick() else 20000):
        strs.append("".join(rng.choice(alphabet) for _ in range(rng.randint(3, 14))))
    ans = ctx.model.batch([{"op": "c04.scan", "s": s, "ws": WS} for s in strs])
    for s, a in zip(strs, ans):
        impl = [i["code"] for i in sv.check_delimiter_issues_in_hed_string(s)]
        ctx.case(("scan", s), nontrivial=bool(impl), sample=None)
        if a["codes"] != impl:
            ctx.disagree("Dup.Scan.scan = check_delimiter_issues_in_hed_string", {"scan": s}, a["codes"], impl)
        squeezed = "".join(c for c in s if c not in WS)
        other = [i["code"] for i in sv.check_delimiter_issues_in_hed_string(squeezed)]
        if sorted(impl) != sorted(other):
            ctx.violation("delimiter-codes-differ-after-spacing-rewrite", {"base": s, "rewrite": squeezed, "kind": "spacing", "scan": True},
                          {"base_codes": impl, "rewrite_codes": other})
    ctx.extra["scan_strings"] = len(strs)


def run(ctx):
    from hed import load_schema_version
    install_recorder()
    schema = load_schema_version(SCHEMA)
    v = Vocab()
    rng = ctx.rng
    ctx.extra["rule"] = ("annotations over HED 8.3.0 built from an abstract tree (vocabulary tags from the independently read XML, "
                         "value/extension tails, unknown/empty tags, empty groups, placement-rule tags; depth <= 4; deliberate repeated "
                         "siblings with permuted members; in ~45% a group — in ~20% one led by a top-level-only tag: Duration/Delay/Onset/Offset/Inset+Def/"
                         "Definition/Event-context — is copied to another depth and the copies are rewritten independently) and rewrites of them (respelled names, blanks around delimiters, permuted "
                         "siblings, combinations); duplicate-rule trees over a 10-tag pool in all top-level permutations; "
                         "annotations with 2-4 top-level Duration/Delay groups (well formed / extra tag / zero or two inner groups / legal delayed "
                         "Onset-Offset-Inset groups with a declared Def) in every written order of those groups; "
                         "delimiter/blank strings (exhaustive to length 4/5 + random). Non-trivial = the base annotation has at "
                         "least one error code / at least one duplicate issue / at least one delimiter issue")
    # 1. corpus of known witnesses
    for a, b, kind in CORPUS:
        check_pair(ctx, schema, a, kind, b)
        ctx.case(("corpus", a, b), nontrivial=True, sample=None)
    # 2. relational oracle on generated annotations
    nbase, nrw = (1500, 8) if ctx.quick() else (20000, 20)
    for _ in range(nbase):
        top = gen_annotation(rng, v)
        base = render(rng, top)
        c0 = codes_of(base, schema)
        for c in set(c0):
            ctx.count("base-code:" + c)
        ctx.count("base-depth-%d" % depth_of(top))
        ctx.count("base-errors-%s" % (len(c0) if len(c0) < 3 else "3+"))
        if has_marks(top):
            ctx.count("base-with-copied-subtree")
        ctx.case(("rel", base), nontrivial=bool(c0),
                 sample={"base": base, "codes": c0} if c0 and len(base) < 90 else None)
        for kind, text in rewrites(rng, top, nrw):
            ctx.count("rewrite:" + kind)
            ctx.evaluations += 1
            check_pair(ctx, schema, base, kind, text, cache=c0)
        ctx.check_time()
    # 2b. several top-level Duration/Delay groups, in EVERY written order of those groups
    run_temporal(ctx, schema, v)
    # 3. model correspondence on the duplicate rule, 4. on the delimiter scan
    run_dup(ctx, schema)
    run_scan(ctx, schema)


def replay(ctx, rec):
    from hed import load_schema_version
    install_recorder()
    schema = load_schema_version(SCHEMA)
    case = rec.get("case") or (rec.get("disagreements") or [{}])[0].get("case")
    if not case:
        print("nothing to replay (obligation-only record):", rec.get("broken_obligations"))
        return
    if "dup" in case:
        a = ctx.model.batch([dup_request(schema, case["dup"])])[0]
        dup_case(ctx, schema, case["dup"], a)
        print("model:", json.dumps(a)[:300])
    elif "scan" in case and isinstance(case["scan"], str):
        from hed.validator.util.string_util import StringValidator
        a = ctx.model.batch([{"op": "c04.scan", "s": case["scan"], "ws": WS}])[0]
        impl = [i["code"] for i in StringValidator().check_delimiter_issues_in_hed_string(case["scan"])]
        print("model", a["codes"], "impl", impl)
        if a["codes"] != impl:
            ctx.disagree("Dup.Scan.scan = check_delimiter_issues_in_hed_string", case, a["codes"], impl)
    elif "text" in case:
        c = codes_of(case["text"], schema)
        print("codes:", c)
        if c and c[0].startswith("RAISED:"):
            ctx.violation("validation-raised", case, c[0])
        elif case.get("kind") == "repeat":
            a = ctx.model.batch([dup_request(schema, case["text"])])[0]
            dup_case(ctx, schema, case["text"], a)
    else:
        print("base   ", repr(case["base"]), codes_of(case["base"], schema))
        print("rewrite", repr(case["rewrite"]), codes_of(case["rewrite"], schema))
        check_pair(ctx, schema, case["base"], case.get("kind", "?"), case["rewrite"])
    print("replayed", json.dumps(case)[:300])
