"""C06 — Event-file rows assemble into exactly the annotation the sidecar prescribes.

Correspondence: (a) `df_util.replace_ref` against `Assemble.replaceRef`, exhaustively on all strings of
<= N tokens over {R, blank, ',', '(', ')', {c}} containing a reference (values n/a, empty, a tag; also a
digits-only reference name); the real delimiter checker against `Assemble.delimOk` on the same strings;
(a2) two different references in one text, both processing orders, exhaustively on the accepted, balanced
texts of <= N tokens over {R, blank, ',', '(', ')', {a}, {b}} with each reference once as a whole tag;
(c) `ColumnMapper._value_handler` / `_category_handler` and the filter of `combine_dataframe` directly against
`Assemble.valueHandler` (`isMissing`) / `categoryHandler` / `keep` on every cell of <= 3 characters over the
characters of n/a, N, A, blank, #, 0, x (oracle: only exactly `n/a` and the empty cell are missing);
(d) object histories on ONE `TabularInput`: series_a / dataframe_a / get_column_refs / assemble(skip) / validate and
`reset_column_mapper(sidecar B)` with sidecar pairs whose reference sets differ; after every operation the rows must be
those of a fresh object with the current sidecar (and the model's);
(b) `TabularInput(table, sidecar)`: column kinds, reference set, transformer columns and their order,
`assemble(skip_curly_braces=True)` cells and `list(series_a)` against `Assemble.kind / refsOf / activeCols /
transformed / seriesWith`, three consecutive calls on one object.  The table is a .tsv file or a DataFrame; a good third
of the DataFrames carry row labels other than 0..n-1 (rows cut out of a longer frame by a mask or a slice, permuted,
gapped, negative, float, string, duplicated labels), with and without a missing cell in the referenced columns.  Rows are
judged by position; `series_a`, `dataframe_a`, `assemble(skip_curly_braces=True)` must carry the labels of the table handed
in, in its order, and `dataframe_a` joined row by row (here) must be `series_a`.

Direct oracle (the property statement, computed here without the code under test): the annotation of a
row is built from the *trees* the sidecar strings were generated from — referenced columns are
substituted at their references or dropped with the group that only held them, the remaining columns are
listed in code-point order of their names — and compared up to blanks around delimiters; every output
must pass the real `check_delimiter_issues_in_hed_string` and, whenever the inputs have balanced
parentheses (depth never negative, zero at the end), have balanced parentheses too; frame (values and dtypes) and `loaded_dict` are
compared before/after.
"""
import copy
import io
import itertools
import json
import os
import re

THEOREMS = [
    "HedVerif.C06.row_spec",
    "HedVerif.C06.columns_sorted",
    "HedVerif.C06.columns_complete",
    "HedVerif.C06.transform_spec",
    "HedVerif.C06.splice",
    "HedVerif.C06.splice_at",
    "HedVerif.C06.splice_absent",
    "HedVerif.C06.length_order",
    "HedVerif.C06.deterministic_pure",
    "HedVerif.C06.delimOk_iff_chain",
    "HedVerif.C06.na_wellformed_partial",
    "HedVerif.C06.na_wellformed_counterexample",
    "HedVerif.C06.old_empty_value_counterexample",
    "HedVerif.C06.old_leading_blank_counterexample",
    "HedVerif.C06.old_numeric_name_counterexample",
    "HedVerif.C06.old_value_empty_cell_counterexample",
    "HedVerif.C06.join_wellformed",
    "HedVerif.C06.remover_keeps_balance",
    "HedVerif.C06.splice_wellformed",
    "HedVerif.C06.assembled_wellformed_partial",
    "HedVerif.C06.row_wellformed_partial",
    "HedVerif.C06.file_order_independent",
    "HedVerif.C06.series_file_order_independent",
    "HedVerif.C06.findRefs_finds",
    "HedVerif.C06.refsOf_finds",
    "HedVerif.C06.two_refs_bounded",
    "HedVerif.C06.isMissing_iff",
    "HedVerif.C06.isMissing_near_misses",
    "HedVerif.C06.valueHandler_spec",
    "HedVerif.C06.keep_iff_not_missing",
    "HedVerif.C06.categoryHandler_spec",
    "HedVerif.C06.removal_is_tree_pruning_bounded",
    "HedVerif.C06.removal_positions",
    "HedVerif.Assemble.replaceRef_shape",
    "HedVerif.Assemble.step_keeps_once",
    "HedVerif.Assemble.spliceAll_wellformed",
    "HedVerif.C06.several_references_wellformed",
    "HedVerif.C06.assembled_wellformed",
    "HedVerif.C06.row_wellformed",
    "HedVerif.C06.once_excludes_the_finding",
    "HedVerif.C06.history_last_sidecar",
    "HedVerif.C06.ref_order_blank_counterexample",
]
BUDGET = {"quick": 900, "thorough": 3600}

SIG_ADJ = "C06-same-reference-adjacent-twice"
SIG_PAD = "C06-padded-na-reference-cell"
TOKENS = ["R", " ", ",", "(", ")"]
NAMES = ["a", "b", "c", "resp", "1", "20", "x_y", "k-1", "Z", "Ab"]
TAGS = ["Red", "Blue", "Green", "Square", "Item/Thing", "(Circle, Big)", "Sensory-event", "{x y}"]
VTAGS = ["Label/#", "Age/# years", "Description/#"]
MISSING = ["n/a", ""]                                   # the only cells the property calls missing
SUBSTR = ["n", "a", "/", "n/", "/a"]                    # non-empty proper substrings of "n/a"
NEAR = SUBSTR + ["N/A", "n/a ", " n/a", "na", "nan", "NaN", "None", "NA", "null", "0", "-", "x", "k", "1"]
PANDAS_NA = {"N/A", "nan", "NaN", "None", "NA", "null", "NULL", "#N/A", "<NA>", "-nan", "-NaN", "#NA", "n/a", ""}
KEYPOOL = ["k1", "k2", "k3"] + SUBSTR + ["N/A", "na", "nan", "None", "0", "-", "n/a "]


def near_cell(rng, names):
    """a cell that is *not* missing but looks like it, or equals a column name"""
    return rng.choice(NEAR + NEAR + list(names) + ["HED"])



# ------------------------------------------------------------------------------------- helpers

def checker():
    from hed.validator.util.string_util import StringValidator
    sv = StringValidator()
    return lambda s: not sv.check_delimiter_issues_in_hed_string(s)


def balanced(s):
    """parentheses balanced: running depth never negative, zero at the end"""
    d = 0
    for ch in s:
        if ch == "(":
            d += 1
        elif ch == ")":
            d -= 1
            if d < 0:
                return False
    return d == 0


def nested_corpus(ref, max_leaves, max_depth):
    """every forest with <= max_leaves leaves over {R, ref} (at least one ref), groups nested up to max_depth,
    rendered with ', ' and with ',': references with their own parentheses first / middle / last in an
    enclosing group, nested twice, ... e.g. '(({c}), R)', '(R, ({c}))', '((({c})), R)', 'R, (({c}), (R, R))'"""
    def forests(n, depth):      # lists of items using exactly n leaves
        if n == 0:
            yield []
            return
        for k in range(1, n + 1):           # first item uses k leaves
            for first in items(k, depth):
                for rest in forests(n - k, depth):
                    yield [first] + rest

    def items(k, depth):
        if k == 1:
            yield "R"
            yield ref
        if depth > 0:
            for inner in forests(k, depth - 1):
                yield "(" + "\x00".join(inner) + ")"
    out = set()
    for n in range(1, max_leaves + 1):
        for f in forests(n, max_depth):
            t = "\x00".join(f)
            if ref in t:
                out.add(t.replace("\x00", ", "))
                out.add(t.replace("\x00", ","))
    return sorted(out)


def whole_tag(s, ref):
    """every occurrence of ref has only start/','/'(' before it and end/','/')' after it (blanks skipped)"""
    i = 0
    while True:
        j = s.find(ref, i)
        if j < 0:
            return True
        b, a = s[:j].rstrip(), s[j + len(ref):].lstrip()
        if (b and b[-1] not in ",(") or (a and a[0] not in ",)"):
            return False
        i = j + len(ref)


def norm(s):
    return re.sub(r"\s*([,()])\s*", r"\1", s.strip())


def enc(v):
    """order-preserving encoding of a sidecar value for the driver"""
    if isinstance(v, str):
        return {"s": v}
    if isinstance(v, dict):
        return {"o": [[k, enc(x)] for k, x in v.items()]}
    return {"x": 1}


# ------------------------------------------------------------------- part (a): replace_ref

def corpus(ref, n):
    out = []
    toks = TOKENS + [ref]
    for k in range(1, n + 1):
        for t in itertools.product(toks, repeat=k):
            if ref in t:
                out.append("".join(t))
    return out


def check_replace(ctx, texts, name, value, ok, model=None):
    """one (name, value) over many texts; `model` = precomputed driver answer or None"""
    from hed.models.df_util import replace_ref
    ref = "{" + name + "}"
    if model is None:
        model = ctx.model.batch([{"op": "c06.replace_refs", "texts": texts, "name": name, "value": value,
                                  "variant": "fixed"}])[0]
    removal = value in ("", "n/a")
    adj = re.compile(re.escape(ref) + r"[\s,()]*" + re.escape(ref))
    for t, m_out, m_in, m_ok in zip(texts, model["outs"], model["ok_in"], model["ok_out"]):
        case = {"text": t, "name": name, "value": value}
        try:
            out = replace_ref(t, ref, value)
        except Exception as e:
            ctx.violation("replace_ref-raised", case, f"{type(e).__name__}: {e}")
            continue
        ok_in = ok(t)
        wt = ok_in and whole_tag(t, ref)
        ctx.case(("r", t, name, value), nontrivial=wt and removal)
        if m_in != ok_in:
            ctx.disagree("Assemble.delimOk = check_delimiter_issues_in_hed_string", {"text": t}, m_in, ok_in)
        if out != m_out:
            ctx.disagree("Assemble.replaceRef = df_util.replace_ref", case, m_out, out)
        elif m_ok != ok(out):
            ctx.disagree("Assemble.delimOk = check_delimiter_issues_in_hed_string", {"text": out}, m_ok, ok(out))
        # oracle
        if balanced(t) and (removal or balanced(value)) and not balanced(out):
            ctx.violation("balanced-parentheses-stay-balanced", case, {"out": out})
        if removal:
            if ref in out:
                ctx.violation("na-reference-disappears", case, {"out": out})
            elif wt and out and not out.strip():
                ctx.violation("na-result-not-a-blank-item", case, {"out": out})
            elif wt and not ok(out):
                sig = SIG_ADJ if adj.search(t) else None
                ctx.count("not-wellformed:" + (sig or "other"))
                ctx.violation("na-result-delimiter-wellformed", case, {"out": out}, signature=sig)
        else:
            if out != value.join(t.split(ref)):
                ctx.violation("spliced-exactly-at-references", case, {"out": out})
            elif wt and not ok(out):
                ctx.violation("splice-result-delimiter-wellformed", case, {"out": out})


def check_two(ctx, ok, texts, va, vb):
    """`{a}` then `{b}` against `{b}` then `{a}` on the implementation; the model follows the first order"""
    from hed.models.df_util import replace_ref
    m1 = ctx.model.batch([{"op": "c06.replace_refs", "texts": texts, "name": "a", "value": va,
                           "variant": "fixed"}])[0]["outs"]
    m2 = ctx.model.batch([{"op": "c06.replace_refs", "texts": m1, "name": "b", "value": vb,
                           "variant": "fixed"}])[0]["outs"]
    trimmed = va == va.strip() and vb == vb.strip()
    for t, mo in zip(texts, m2):
        case = {"text": t, "a": va, "b": vb}
        ctx.case(("2", t, va, vb), nontrivial=True)
        try:
            r1 = replace_ref(replace_ref(t, "{a}", va), "{b}", vb)
            r2 = replace_ref(replace_ref(t, "{b}", vb), "{a}", va)
        except Exception as e:
            ctx.violation("replace_ref-raised", case, f"{type(e).__name__}: {e}")
            continue
        if r1 != mo:
            ctx.disagree("Assemble.replaceRef twice = df_util.replace_ref twice", case, mo, r1)
        if norm(r1) != norm(r2) or (trimmed and r1 != r2):
            ctx.violation("same-result-for-either-reference-order", case, {"a-then-b": r1, "b-then-a": r2})
        elif r1 != r2:
            ctx.count("reference-order-changes-blanks-only")
        if not ok(r1) or not balanced(r1) or not ok(r2) or not balanced(r2):
            ctx.violation("two-references-result-wellformed-and-balanced", case, {"a-then-b": r1, "b-then-a": r2})


def part_a2(ctx, ok, n):
    """two different references in one text, both orders: every accepted, balanced text of <= n tokens over
    {R, blank, ',', '(', ')', {a}, {b}} with each reference once as a whole tag x all pairs of values"""
    texts = []
    for k in range(2, n + 1):
        for t in itertools.product(TOKENS + ["{a}", "{b}"], repeat=k):
            if t.count("{a}") == 1 and t.count("{b}") == 1:
                s = "".join(t)
                if ok(s) and balanced(s) and whole_tag(s, "{a}") and whole_tag(s, "{b}"):
                    texts.append(s)
    values = ["n/a", "", "X", "(X, Y)", " X ", "X "]
    for va in values:
        for vb in values:
            check_two(ctx, ok, texts, va, vb)
        ctx.check_time()
    ctx.extra["two_reference_strings"] = len(texts)


def part_a(ctx, ok):
    n = 6 if ctx.quick() else 7
    texts = corpus("{c}", n)
    for value in ("n/a", "", "Blue", "(Blue, Big)"):
        for lo in range(0, len(texts), 60000):
            check_replace(ctx, texts[lo:lo + 60000], "c", value, ok)
            ctx.check_time()
    nested = nested_corpus("{c}", 3 if ctx.quick() else 4, 3)
    for value in ("n/a", "", "Blue", "(Blue, Big)"):
        check_replace(ctx, nested, "c", value, ok)
    ctx.check_time()
    ctx.extra["replace_ref_nested_strings"] = len(nested)
    part_a2(ctx, ok, 6 if ctx.quick() else 7)
    m = 5 if ctx.quick() else 6
    for name in ("1", "0", "12", "k-1", "a.b"):      # digits-only names are regex quantifiers when not escaped
        tx = corpus("{" + name + "}", m)
        for value in ("n/a", "Blue"):
            check_replace(ctx, tx, name, value, ok)
        ctx.check_time()
    ctx.extra["replace_ref_exhaustive_tokens"] = n
    ctx.extra["replace_ref_strings"] = len(texts)


# ------------------------------------------------------------------- part (b): sidecar x table

def render(nodes, rng=None, noise=0.0, top=True):
    """tree -> string.  node = ("tag", text) | ("ref", name) | ("grp", [nodes]).  With `noise`, blanks are
    added around delimiters (and in front of the string) and some separators lose their blank."""
    def sp():
        return " " * rng.randint(1, 2) if rng is not None and rng.random() < noise else ""
    parts = []
    for nd in nodes:
        if nd[0] == "tag":
            parts.append(nd[1])
        elif nd[0] == "ref":
            parts.append("{" + nd[1] + "}")
        else:
            parts.append("(" + sp() + render(nd[1], rng, noise, False) + sp() + ")")
    out = ""
    for i, p in enumerate(parts):
        if i:
            out += sp() + ("," if rng is not None and rng.random() < noise else ", ") + sp()
        out += p
    return (sp() + out + sp()) if top else out


def subst(nodes, contrib, pound=None):
    """the annotation a tree denotes: references replaced by the referenced column's text or dropped,
    groups left empty dropped; list of rendered items"""
    out = []
    for nd in nodes:
        if nd[0] == "tag":
            out.append(nd[1] if pound is None else nd[1].replace("#", pound))
        elif nd[0] == "ref":
            if nd[1] not in contrib:           # not a column of this file: the text stays as written
                out.append("{" + nd[1] + "}")
            elif contrib[nd[1]] is not None:
                out.append(contrib[nd[1]])
        else:
            inner = subst(nd[1], contrib, pound)
            if inner:
                out.append("(" + ", ".join(inner) + ")")
    return out


def gen_tree(rng, leaves, depth=0):
    """random tree over the given leaf nodes (in order)"""
    if not leaves:
        return []
    out, i = [], 0
    while i < len(leaves):
        if depth < 2 and rng.random() < 0.35:
            k = rng.randint(1, min(3, len(leaves) - i))
            out.append(("grp", gen_tree(rng, leaves[i:i + k], depth + 1)))
            i += k
        else:
            out.append(leaves[i])
            i += 1
    return out


PLACEMENTS = ["alone", "first", "middle", "last", "paren-first", "paren-last", "paren-middle", "sole-group",
              "nested-sole", "own-group-first", "own-group-middle", "nested-twice", "deep-mixed", "random"]


def place(rng, how, refs, tagpool):
    """a tree containing the given reference leaves, placed as `how`"""
    t = lambda: ("tag", rng.choice(tagpool))   # noqa: E731
    r = [("ref", x) for x in refs]
    if not r:
        return gen_tree(rng, [t() for _ in range(rng.randint(1, 3))])
    if how == "alone":
        return r
    if how == "first":
        return r + [t()]
    if how == "middle":
        return [t()] + r + [t()]
    if how == "last":
        return [t()] + r
    if how == "paren-first":
        return [("grp", r + [t()])] + ([t()] if rng.random() < 0.5 else [])
    if how == "paren-last":
        return ([t()] if rng.random() < 0.5 else []) + [("grp", [t()] + r)]
    if how == "paren-middle":
        return [("grp", [t()] + r + [t()])]
    if how == "sole-group":
        return ([t()] if rng.random() < 0.5 else []) + [("grp", r)] + ([t()] if rng.random() < 0.5 else [])
    if how == "nested-sole":                 # (R, ({c}))
        return [("grp", [t(), ("grp", r)])]
    if how == "own-group-first":             # (({c}), R)
        return [("grp", [("grp", r), t()])]
    if how == "own-group-middle":            # (R, ({c}), R)
        return [("grp", [t(), ("grp", r), t()])]
    if how == "nested-twice":                # ((({c})), R)
        return [("grp", [("grp", [("grp", r)]), t()])]
    if how == "deep-mixed":                  # A, (({c}), (B, C))
        return [t(), ("grp", [("grp", r), ("grp", [t(), t()])])]
    leaves = [t() for _ in range(rng.randint(0, 3))] + r
    rng.shuffle(leaves)
    return gen_tree(rng, leaves)


def gen_pair(rng, names=None, has_hed=None, dense=False, min_rows=1, max_rows=4):
    """(spec, header, rows).  spec: name -> {"kind", "entry" (JSON), "trees": {key|None: tree}}.
    `dense`: every cell of a *referenced* column is filled in (a categorical cell is one of its keys, the other
    kinds get a text that is neither `n/a` nor empty), so no row of that column is missing anywhere in the table."""
    if names is None:
        names = rng.sample(NAMES, rng.randint(1, 4))
        has_hed = rng.random() < 0.6
    kinds = {}
    for nme in names:
        kinds[nme] = rng.choices(["categorical", "value", "ignored", "malformed"], [5, 4, 1, 1])[0]
    typed = [c for c in names if kinds[c] in ("categorical", "value")]
    # referenced columns: any file column incl. HED and malformed ones, sometimes a name that is no column
    cand = names + (["HED"] if has_hed else [])
    nref = rng.choice([0, 1, 1, 1, 2, 2])
    hosts_possible = [c for c in typed]
    refs = []
    if hosts_possible and nref:
        pool = [c for c in cand] + ["ghost"]
        rng.shuffle(pool)
        for c in pool:
            if len(refs) < nref and [h for h in hosts_possible if h != c and h not in refs]:
                refs.append(c)
    hosts = [h for h in hosts_possible if h not in refs]
    noise = 0.25 if rng.random() < 0.2 else 0.0
    spec = {}
    placed = False
    same_twice = rng.random() < 0.04
    for nme in names:
        k = kinds[nme]
        is_host = nme in hosts and refs
        if k == "categorical":
            if rng.random() < 0.55:
                keys = ["k1", "k2", "k3"][:rng.randint(2, 3)]
            else:                       # near-miss keys; rarely the missing cells themselves are keys
                keys = rng.sample(KEYPOOL + names, rng.randint(2, 3))
                if rng.random() < 0.12:
                    keys[0] = rng.choice(MISSING)
            trees = {}
            for key in keys:
                if is_host and (not placed or rng.random() < 0.4):
                    use = refs if rng.random() < 0.5 else [rng.choice(refs)]
                    if same_twice:
                        use = [use[0], use[0]]
                    trees[key] = place(rng, rng.choice(PLACEMENTS), use, TAGS)
                    placed = True
                else:
                    trees[key] = gen_tree(rng, [("tag", rng.choice(TAGS)) for _ in range(rng.randint(1, 3))])
            entry = {"HED": {key: render(tr, rng, noise) for key, tr in trees.items()}}
            if rng.random() < 0.3:
                entry["Levels"] = {key: "level " + key for key in keys}
            spec[nme] = {"kind": k, "entry": entry, "trees": trees}
        elif k == "value":
            if is_host and (not placed or rng.random() < 0.4):
                use = refs if rng.random() < 0.5 else [rng.choice(refs)]
                tree = place(rng, rng.choice(PLACEMENTS), use, TAGS)
                tree = tree + [("tag", rng.choice(VTAGS))] if rng.random() < 0.5 else [("tag", rng.choice(VTAGS))] + tree
                placed = True
            else:
                tree = gen_tree(rng, [("tag", rng.choice(VTAGS))] + [("tag", rng.choice(TAGS))
                                                                   for _ in range(rng.randint(0, 2))])
            spec[nme] = {"kind": k, "entry": {"HED": render(tree, rng, noise), "Description": "d"},
                         "trees": {None: tree}}
        elif k == "ignored":
            spec[nme] = {"kind": k, "entry": rng.choice([{"Description": "x"}, {"Levels": {"k1": "a"}}, {}]),
                         "trees": {}}
        else:
            spec[nme] = {"kind": k, "entry": rng.choice([{"HED": "Red"}, {"HED": {"k1": 5, "k2": "Red"}},
                                                         {"HED": 5}, {"HED": ["Red"]}, {"HED": ""}]),
                         "trees": {}}
    # the file: sidecar columns (sometimes one missing), HED, unrelated columns; shuffled
    header = [c for c in names if rng.random() < 0.93]
    if has_hed:
        header.append("HED")
    header += rng.sample(["onset", "duration", "trial"], rng.randint(0, 2))
    if not header:
        header = ["onset"]
    rng.shuffle(header)
    rows = []
    filled = set(refs) if dense else set()
    for _ in range(rng.randint(min_rows, max_rows)):
        row = []
        for c in header:
            u = rng.random()
            if c in filled:             # dense mode: a referenced column without a single missing cell
                k = "hed" if c == "HED" else spec[c]["kind"]
                keys = [x for x in spec[c]["trees"] if x not in MISSING] if k == "categorical" else []
                if k == "categorical" and keys:
                    row.append(rng.choice(keys))
                elif k == "value":
                    row.append(rng.choice(["3", "abc", "7.5"]) if u < 0.7 else near_cell(rng, names))
                elif k == "hed":
                    row.append(rng.choice(["Purple", "(Pink, Dot)", "Orange, Cross"]) if u < 0.75 else near_cell(rng, names))
                else:
                    row.append(rng.choice(["k1", "x", "4", "Red"]) if u < 0.7 else near_cell(rng, names))
            elif c == "HED":
                row.append(rng.choice(["Purple", "(Pink, Dot)", "Orange, Cross"]) if u < 0.4 else
                           rng.choice(MISSING + ["n/a"]) if u < 0.65 else near_cell(rng, names))
            elif c in spec and spec[c]["kind"] == "categorical":
                row.append(rng.choice(list(spec[c]["trees"])) if u < 0.45 else
                           rng.choice(MISSING + ["n/a"]) if u < 0.65 else
                           "zz" if u < 0.7 else near_cell(rng, names))
            elif c in spec and spec[c]["kind"] == "value":
                row.append(rng.choice(["3", "abc", "7.5"]) if u < 0.35 else
                           rng.choice(MISSING + ["n/a"]) if u < 0.6 else near_cell(rng, names))
            else:
                row.append(rng.choice(["k1", "x", "n/a", "", "4"]) if u < 0.6 else near_cell(rng, names))
        rows.append(row)
    return spec, header, rows


# row labels of a DataFrame input.  None = the default 0..n-1; otherwise {"how", "labels"[, "filler"]}.  The first three are
# made the way a user gets them (rows cut out of a longer frame), the others by labelling the rows directly.
INDEX_HOWS = ["filtered", "filtered", "sliced", "sliced", "stepped", "permuted", "permuted", "gapped", "strings",
              "duplicated", "negative", "float"]


def gen_index(rng, n):
    """labels for n >= 2 rows that are never 0..n-1"""
    how = rng.choice(INDEX_HOWS)
    if how == "filtered":                   # frame[mask]: increasing labels with gaps, some >= n
        labels = sorted(rng.sample(range(n + rng.randint(1, 3)), n))
        if labels == list(range(n)):
            labels[-1] += 1
    elif how == "sliced":                   # frame.iloc[k:]: RangeIndex(k, k + n)
        k = rng.randint(1, 4)
        labels = list(range(k, k + n))
    elif how == "stepped":                  # frame.iloc[k::2]: RangeIndex with step 2
        k = rng.randint(0, 1)
        labels = list(range(k, k + 2 * n, 2))
    elif how == "permuted":                 # the labels 0..n-1 in another order (a sorted / shuffled frame)
        labels = list(range(n))
        while labels == list(range(n)):
            rng.shuffle(labels)
    elif how == "gapped":
        labels = [10 * (i + 1) for i in range(n)]
    elif how == "strings":
        labels = rng.choice([[f"r{i}" for i in range(n)], list("edcbaz")[:n], [str(i) for i in range(n)],
                             [str(n - i) for i in range(n)]])
    elif how == "duplicated":
        labels = [rng.randint(0, n // 2) for _ in range(n)]
        labels[rng.randint(1, n - 1)] = labels[0]
        if rng.random() < 0.3:
            labels = ["ab"[x % 2] for x in labels]
    elif how == "negative":
        labels = [-1 - i for i in range(n)]
    else:
        labels = [i + 0.5 for i in range(n)]
    return {"how": how, "labels": labels}


def build_frame(header, rows, index):
    """the DataFrame handed to TabularInput: cells `rows` (all str), row labels as `index` says"""
    import pandas as pd
    from harness import common
    if not index:
        return pd.DataFrame(rows, columns=header, dtype=str)
    how, labels = index["how"], list(index["labels"])
    if how in ("filtered", "sliced", "stepped"):
        at = dict(zip(labels, rows))
        filler = index.get("filler") or ["n/a"] * len(header)
        total = max(labels) + 1
        full = pd.DataFrame([at.get(i, filler) for i in range(total)], columns=header, dtype=str)
        if how == "filtered":
            df = full[pd.Series([i in at for i in range(total)])]
        elif how == "sliced":
            df = full.iloc[labels[0]:]
        else:
            df = full.iloc[labels[0]::2]
    else:
        df = pd.DataFrame(rows, columns=header, dtype=str, index=pd.Index(labels))
    if labels_of(df.index) != labels or df.values.tolist() != [list(r) for r in rows]:
        raise common.HarnessError(f"C06 frame builder: wanted labels {labels}, built {labels_of(df.index)}")
    return df


def labels_of(index):
    """row labels as JSON values"""
    return [x if isinstance(x, (int, float, str)) and not isinstance(x, bool) else str(x) for x in index.tolist()]


def expected_series(spec, header, rows):
    """the property statement, from the generating trees"""
    active = [c for c in header if c == "HED" or (c in spec and spec[c]["kind"] != "ignored")]
    referenced = set()
    for c, s in spec.items():
        if s["kind"] in ("categorical", "value"):
            for tr in s["trees"].values():
                referenced |= set(re.findall(r"\{([A-Za-z_\-0-9]+)\}", render(tr)))
    referenced &= set(active)
    out = []
    for row in rows:
        cell = dict(zip(header, row))
        own = {}     # column -> (tree, pound) | text | None
        for c in active:
            x = cell[c]
            k = "hed" if c == "HED" else spec[c]["kind"]
            if k in ("hed", "malformed"):
                own[c] = x if x not in ("", "n/a") else None
            elif k == "categorical":
                own[c] = (spec[c]["trees"][x], None) if x in spec[c]["trees"] else None
            else:
                own[c] = (spec[c]["trees"][None], x) if x not in ("", "n/a") else None
        contrib = {}
        for c in referenced:
            v = own[c]
            if isinstance(v, tuple):
                v = ", ".join(subst(v[0], {}, v[1])) or None
            contrib[c] = v
        items = []
        for c in sorted(active):
            if c in referenced or own[c] is None:
                continue
            v = own[c]
            items += subst(v[0], contrib, v[1]) if isinstance(v, tuple) else [v]
        out.append(", ".join(items))
    return out


def frame_state(df):
    return {"columns": list(df.columns), "dtypes": [str(t) for t in df.dtypes],
            "values": [[str(x) for x in r] for r in df.values.tolist()],
            "index": labels_of(df.index), "index_type": type(df.index).__name__ + ":" + str(df.index.dtype)}


def own_join(cells):
    """the row filter of the statement on the cells of one assembled row (computed here, not by the code under test)"""
    return ", ".join(x for x in cells if x != "" and x != "n/a")


def impl_pair(spec, header, rows, via_file, tmpdir, index=None):
    from hed import TabularInput, Sidecar
    sc_json = {c: s["entry"] for c, s in spec.items()}
    sidecar = Sidecar(io.StringIO(json.dumps(sc_json)))
    df = build_frame(header, rows, None if via_file else index)
    if via_file:
        path = f"{tmpdir}/events_{os.getpid()}.tsv"
        df.replace("", "n/a").to_csv(path, sep="\t", index=False)
        ti = TabularInput(path, sidecar=sidecar, name="gen")
    else:
        ti = TabularInput(df, sidecar=sidecar, name="gen")
    caller_before = frame_state(df)
    res = {"table": [[str(x) for x in r] for r in ti.dataframe.values.tolist()],
           "header": [str(c) for c in ti.dataframe.columns]}
    # what the .tsv loader (outside this property) did to the cells that were written
    res["loader_na"] = sorted({w for rw, rl in zip(rows, res["table"]) for w, l in zip(rw, rl)
                               if via_file and w not in MISSING and l == "n/a"})
    res["loader_other"] = sorted({w for rw, rl in zip(rows, res["table"]) for w, l in zip(rw, rl)
                                  if via_file and w not in MISSING and l != w and l != "n/a"})
    before_frame, before_dict = frame_state(ti.dataframe), copy.deepcopy(sidecar.loaded_dict)
    res["kinds"] = {c: (m.column_type.value if m.column_type is not None else "none")
                    for c, m in sidecar.column_data.items()}
    res["refs"] = list(ti.get_column_refs())
    res["labels"] = []           # row labels of everything that was returned, in the order returned
    s1 = ti.series_a
    res["series"] = [list(map(str, s1))]
    res["labels"].append(("series_a", labels_of(s1.index)))
    skip = ti.assemble(skip_curly_braces=True)
    res["labels"].append(("assemble(skip_curly_braces=True)", labels_of(skip.index)))
    tr, _ = ti._mapper.get_transformers()
    res["columns"] = [str(c) for c in tr]
    res["transformed"] = [[str(x) for x in r] for r in skip[list(tr)].values.tolist()] if tr else None
    s2 = ti.series_a
    res["series"].append(list(map(str, s2)))
    res["labels"].append(("series_a (second call)", labels_of(s2.index)))
    fa = ti.dataframe_a
    res["frame_a"] = {"columns": [str(c) for c in fa.columns], "values": [[str(x) for x in r] for r in fa.values.tolist()]}
    res["labels"].append(("dataframe_a", labels_of(fa.index)))
    s3 = ti.combine_dataframe(fa)
    res["series"].append(list(map(str, s3)))
    res["labels"].append(("combine_dataframe(dataframe_a)", labels_of(s3.index)))
    res["frame"] = (before_frame, frame_state(ti.dataframe))
    res["caller_frame"] = (caller_before, frame_state(df))
    res["dict_same"] = before_dict == sidecar.loaded_dict and json.dumps(before_dict) == json.dumps(sidecar.loaded_dict)
    return res


def judge_pair(ctx, ok, case, spec, impl, model):
    header, rows = impl["header"], impl["table"]
    nrefs = len(impl["refs"])
    index = case.get("index")
    ctx.case(("p", json.dumps(case["sidecar"], sort_keys=True), tuple(header), json.dumps(rows),
              json.dumps(index["labels"]) if index else None),
             nontrivial=nrefs > 0 and len(impl["columns"]) >= 2,
             sample={"sidecar": case["sidecar"], "header": header, "rows": rows[:2],
                     "index": index["labels"][:2] if index else None} if nrefs == 2 else None)
    ctx.count(f"refs={nrefs}")
    # a referenced column of this table none of whose transformed cells is missing ("dense"): the whole column could be
    # spliced without the removal rules
    how = "tsv-file" if case.get("via_file") else index["how"] if index else "default"
    dense = [c for c in impl["refs"] if c in impl["columns"] and rows and
             all(r[impl["columns"].index(c)] not in MISSING for r in impl["transformed"])]
    hosts_n = len([c for c in impl["columns"] if c not in impl["refs"]])
    ctx.count(f"row-labels:{how}")
    if dense and hosts_n:
        ctx.count(f"row-labels:{how}:with-a-referenced-column-without-missing-cell")
        if len(dense) == len([c for c in impl["refs"] if c in impl["columns"]]):
            ctx.count(f"row-labels:{how}:every-referenced-column-without-missing-cell")
    if index and not case.get("via_file"):
        ctx.extra["nondefault_label_pairs"] = ctx.extra.get("nondefault_label_pairs", 0) + 1
        if dense and hosts_n:
            ctx.extra["nondefault_label_pairs_dense_reference"] = ctx.extra.get("nondefault_label_pairs_dense_reference", 0) + 1
    for w in impl.get("loader_na", []):
        ctx.count("tsv-loader-reads-cell-as-n/a:" + w)      # pandas default NA strings, not this property
        if w not in PANDAS_NA:
            ctx.violation("loader-keeps-cell-text", case, {"written": w, "loaded": "n/a"})
    for w in impl.get("loader_other", []):
        ctx.violation("loader-keeps-cell-text", case, {"written": w})
    ctx.count(f"active-columns={len(impl['columns'])}")
    # ---- correspondence
    mk = {c: k for c, k in model["kinds"]}
    if mk != impl["kinds"]:
        ctx.disagree("Assemble.kind = ColumnMetadata._detect_column_type", case, mk, impl["kinds"])
    if sorted(model["refs"]) != sorted(impl["refs"]):
        ctx.disagree("Assemble.refsOf = Sidecar.get_column_refs", case, sorted(model["refs"]), sorted(impl["refs"]))
    if [c for c, _ in model["columns"]] != impl["columns"]:
        ctx.disagree("Assemble.activeCols = keys of get_transformers (order)", case, model["columns"], impl["columns"])
    if impl["transformed"] is None:
        ctx.count("no-active-column")
    elif model["transformed"] != impl["transformed"]:
        ctx.disagree("Assemble.transformed = assemble(skip_curly_braces=True)", case, model["transformed"],
                     impl["transformed"])
    if model["series"] != impl["series"][0]:
        ctx.disagree("Assemble.series = list(series_a)", case, model["series"], impl["series"][0])
    if model["series"] != model["series_rev"]:
        ctx.count("ref-order-changes-blanks-only")      # a spliced text ending in a blank next to a removed reference
    # known family: a referenced pass-through (HED / untyped) cell that is `n/a` padded with blanks.  When a
    # neighbouring reference is removed the padding can be absorbed, the text becomes exactly `n/a` and the row filter
    # drops it; whether that happens depends on the iteration order of the reference set.  The expectation stays the
    # statement's (the cell text is kept); a violation gets the family's signature only on such a row.
    def padded_na_rows():
        idc = [c for c in impl["refs"] if c in impl["columns"] and (c == "HED" or (c in spec and spec[c]["kind"] == "malformed"))]
        return {i for i, r in enumerate(rows) for c in idc
                if dict(zip(header, r)).get(c, "").strip() == "n/a" and dict(zip(header, r)).get(c) != "n/a"}
    padded = padded_na_rows()
    diff_rows = {i for i, (x, y) in enumerate(zip(model["series"], model["series_rev"])) if norm(x) != norm(y)}
    if diff_rows:
        ctx.violation("same-answer-for-any-iteration-order-of-the-reference-set", case,
                      {"order": impl["refs"], "series": model["series"], "reversed": model["series_rev"]},
                      signature=SIG_PAD if diff_rows <= padded else None)
    # ---- oracle
    if not (impl["series"][0] == impl["series"][1] == impl["series"][2]):
        ctx.violation("same-answer-every-time", case, impl["series"])
    if len(impl["series"][0]) != len(rows):
        ctx.violation("one-annotation-per-row", case, {"rows": len(rows), "got": len(impl["series"][0])})
    for which, (b, a) in (("table", impl["frame"]), ("callers-table", impl["caller_frame"])):
        if b["values"] != a["values"] or b["columns"] != a["columns"]:
            ctx.violation(which + "-values-unchanged", case, {"before": b, "after": a})
        elif b["dtypes"] != a["dtypes"]:
            ctx.violation(which + "-dtypes-unchanged", case, {"before": b["dtypes"], "after": a["dtypes"]})
        elif b["index"] != a["index"] or b["index_type"] != a["index_type"]:
            ctx.violation(which + "-row-labels-unchanged", case, {"before": [b["index"], b["index_type"]],
                                                                  "after": [a["index"], a["index_type"]]})
    # row order: everything returned carries the row labels of the table that was handed in, in its order (that is
    # what the unchanged code returns for every kind of labels, duplicates included; a file is labelled 0..n-1)
    want_labels = list(range(len(rows))) if case.get("via_file") or not index else list(index["labels"])
    if impl["frame"][0]["index"] != want_labels:
        ctx.violation("stored-table-keeps-the-row-labels", case, {"labels": impl["frame"][0]["index"], "expected": want_labels})
    for what, got_labels in impl["labels"]:
        if got_labels != want_labels:
            ctx.violation("one-annotation-per-row-in-row-order-with-the-rows-labels", case,
                          {"returned-by": what, "labels": got_labels, "expected": want_labels})
            break
    # dataframe_a, positionally: the transformer columns that are not referenced, in order; its rows joined by the
    # statement's filter (here) are the annotations
    fa = impl["frame_a"]
    fa_cols = [c for c in impl["columns"] if c not in impl["refs"]]
    if fa["columns"] != fa_cols:
        ctx.violation("dataframe_a-columns-are-the-unreferenced-annotation-columns", case, {"got": fa["columns"], "expected": fa_cols})
    elif impl["transformed"] is not None and len(fa["values"]) != len(rows):
        ctx.violation("one-annotation-per-row", case, {"rows": len(rows), "dataframe_a": len(fa["values"])})
    elif impl["transformed"] is not None and [own_join(r) for r in fa["values"]] != impl["series"][0]:
        ctx.violation("series_a-is-dataframe_a-joined-row-by-row", case,
                      {"dataframe_a": fa["values"], "series_a": impl["series"][0]})
    if not impl["dict_same"]:
        ctx.violation("sidecar-unchanged", case, "loaded_dict differs after assembly")
    want = expected_series(spec, header, rows)
    want_alt = want
    if padded:      # the same rows with the padded cells read as missing
        idc = {c for c in impl["refs"] if c in impl["columns"]}
        rows_alt = [[("n/a" if (h in idc and x.strip() == "n/a") else x) for h, x in zip(header, r)] for r in rows]
        want_alt = expected_series(spec, header, rows_alt)
    for i, (got, exp) in enumerate(zip(impl["series"][0], want)):
        cells = dict(zip(header, rows[i]))
        na_ref = [r for r in impl["refs"] if r in impl["columns"] and
                  (cells.get(r) in ("", "n/a") or (r in spec and spec[r]["kind"] == "categorical"
                                                  and cells.get(r) not in spec[r]["trees"]))]
        if na_ref:
            ctx.count("row-with-absent-referenced-cell")
        for c in impl["columns"]:
            x = cells.get(c)
            kind = "hed" if c == "HED" else spec[c]["kind"] if c in spec else "other"
            if x in SUBSTR:
                ctx.count(f"cell-is-proper-substring-of-n/a:{kind}" + (":referenced" if c in impl["refs"] else ""))
            elif x not in MISSING and x in NEAR + list(spec) + ["HED"]:
                ctx.count(f"cell-near-miss-or-column-name:{kind}" + (":referenced" if c in impl["refs"] else ""))
            if kind == "categorical" and x in MISSING and x in spec[c]["trees"]:
                ctx.count("categorical-entry-keyed-by-missing-cell-selected")   # reported, see module docstring
        if any(s["kind"] == "malformed" and cells.get(c) not in (None, "", "n/a") for c, s in spec.items()):
            ctx.count("row-malformed-column-passes-raw-cell")
        # known family: the text selected for this row holds the same absent reference twice, delimiters between
        chosen = [spec[c]["entry"]["HED"].get(cells.get(c)) if spec[c]["kind"] == "categorical" else spec[c]["entry"]["HED"]
                  for c in impl["columns"] if c in spec and spec[c]["kind"] in ("categorical", "value")]
        sig = SIG_ADJ if any(isinstance(v, str) and re.search(r"\{" + re.escape(r) + r"\}[\s,()]*\{" + re.escape(r) + r"\}", v)
                             for v in chosen for r in na_ref) else None
        # templates and cells are generated with balanced parentheses: the assembled row must be balanced too
        if not balanced(got) and all(balanced(x) for x in rows[i]) and all(isinstance(v, str) and balanced(v)
                                                                            for v in chosen if v is not None):
            ctx.violation("row-parentheses-balanced", {**case, "row": i}, {"got": got, "expected": exp})
        if norm(got) != norm(exp):
            if sig is None and i in padded and norm(got) == norm(want_alt[i]):
                sig = SIG_PAD       # exactly the family: the padded cell was trimmed to n/a and dropped
            ctx.violation("row-is-the-prescribed-annotation", {**case, "row": i}, {"got": got, "expected": exp},
                          signature=sig)
        elif not ok(got):
            ctx.violation("row-delimiter-wellformed", {**case, "row": i}, {"got": got}, signature=sig)


def spec_refs(spec):
    out = set()
    for s_ in spec.values():
        if s_["kind"] in ("categorical", "value"):
            for tr in s_["trees"].values():
                out |= set(re.findall(r"\{([A-Za-z_\-0-9]+)\}", render(tr)))
    return out


HIST_OPS = ["series", "series", "frame", "refs", "refs", "skip", "skip", "validate"]


def gen_history(rng):
    """one table, two sidecars over the same columns whose reference sets differ, a sequence of operations"""
    labelled = rng.random() < 0.5           # half of the histories run on a frame whose row labels are not 0..n-1
    dense = rng.random() < (0.6 if labelled else 0.25)
    specA, header, rows = gen_pair(rng, dense=dense, min_rows=2 if labelled else 1, max_rows=5 if labelled else 4)
    names = list(specA)
    has_hed = "HED" in header
    specB = specA
    for _ in range(12):
        specB = gen_pair(rng, names=names, has_hed=has_hed)[0]
        if spec_refs(specB) != spec_refs(specA):
            break
    ops = [rng.choice(HIST_OPS) for _ in range(rng.randint(1, 2))]
    cur = "A"
    for _ in range(rng.randint(1, 3)):
        cur = "B" if cur == "A" else rng.choice(["A", "B"])
        ops.append("reset:" + cur)
        ops += [rng.choice(HIST_OPS) for _ in range(rng.randint(0, 2))]
    return {"A": specA, "B": specB, "header": header, "rows": rows, "ops": ops,
            "index": gen_index(rng, len(rows)) if labelled else None}


def run_history(ctx, ok, h, schema):
    """ops on ONE TabularInput; after every op its rows must be those of a fresh object with the current sidecar"""
    from hed import TabularInput, Sidecar
    index = h.get("index")
    case = {"history": {"A": make_case(h["A"], h["header"], h["rows"], False, index),
                        "B": make_case(h["B"], h["header"], h["rows"], False, index), "ops": h["ops"], "index": index}}
    mk = lambda sp: Sidecar(io.StringIO(json.dumps({c: s_["entry"] for c, s_ in sp.items()})))   # noqa: E731
    df = build_frame(h["header"], h["rows"], index)
    want_labels = labels_of(df.index)
    try:
        ti = TabularInput(df, sidecar=mk(h["A"]), name="gen")
        cur = "A"
        reqs, obs = [], []
        for k, op in enumerate(h["ops"]):
            if op == "series":
                list(ti.series_a)
            elif op == "frame":
                ti.dataframe_a
            elif op == "refs":
                ti.get_column_refs()
            elif op == "skip":
                ti.assemble(skip_curly_braces=True)
            elif op == "validate":
                # validation is outside this property; on a frame with string row labels it raises on the unchanged tree
                # (spreadsheet_validator: row label + 2), reported to the coordinator and not exercised here
                # (likewise with duplicated row labels: `row_number in invalid rows`-style tests see a Series and raise
                # ValueError).  Both are observations about validating DataFrames with unusual indexes (C07 quantifies
                # over events files, which always have a RangeIndex), not clauses of this property.
                if schema is not None and not any(isinstance(x, str) for x in want_labels) \
                        and len(set(want_labels)) == len(list(want_labels)):
                    ti.validate(schema)
                elif schema is not None:
                    ctx.count("history:validate-not-run-on-string-or-duplicated-row-labels")
            else:
                cur = op[-1]
                ti.reset_column_mapper(mk(h[cur]))
            now = ti.series_a
            got = [str(x) for x in now]
            if labels_of(now.index) != want_labels or labels_of(ti.dataframe_a.index) != want_labels:
                ctx.violation("after-any-history-one-annotation-per-row-with-the-rows-labels", {**case, "step": k},
                              {"op": op, "series_a": labels_of(now.index), "dataframe_a": labels_of(ti.dataframe_a.index),
                               "expected": want_labels})
                return
            fresh = TabularInput(df, sidecar=mk(h[cur]), name="gen")
            want = [str(x) for x in fresh.series_a]
            table = [[str(x) for x in r] for r in fresh.dataframe.values.tolist()]
            reqs.append({"op": "c06.assemble", "sidecar": [[c, enc(s_["entry"])] for c, s_ in h[cur].items()],
                         "header": [str(c) for c in fresh.dataframe.columns], "rows": table,
                         "ref_order": list(fresh.get_column_refs())})
            obs.append((k, op, cur, got, want))
    except Exception as e:
        ctx.violation("history-raised", case, f"{type(e).__name__}: {e}")
        return
    ans = ctx.model.batch(reqs)
    differ = spec_refs(h["A"]) != spec_refs(h["B"])
    ctx.case(("hist", json.dumps(case, sort_keys=True, default=str)), nontrivial=differ and any(o.startswith("reset") for o in h["ops"]))
    ctx.count("history:reference-sets-differ" if differ else "history:same-reference-set")
    ctx.count("history:row-labels:" + (index["how"] if index else "default"))
    if labels_of(df.index) != want_labels:
        ctx.violation("callers-table-row-labels-unchanged", case, {"before": want_labels, "after": labels_of(df.index)})
    for (k, op, cur, got, want), m in zip(obs, ans):
        if got != want:
            ctx.violation("after-any-history-rows-are-those-of-the-current-sidecar", {**case, "step": k},
                          {"op": op, "sidecar": cur, "got": got, "fresh": want})
            return
        if m["series"] != want:
            # where the model gives the annotation the generating trees prescribe and the object does not, the input is a
            # concrete failing one (position by position, whatever the row labels)
            tree = expected_series(h[cur], h["header"], h["rows"])
            bad = [i for i, (x, y, z) in enumerate(zip(m["series"], tree, want)) if norm(x) == norm(y) != norm(z)]
            if len(want) != len(tree) or bad:
                ctx.violation("after-any-history-row-is-the-prescribed-annotation", {**case, "step": k, "row": (bad or [None])[0]},
                              {"op": op, "sidecar": cur, "got": want, "expected": tree})
            else:
                ctx.disagree("Assemble.series (current sidecar) = series_a after a history", {**case, "step": k},
                             m["series"], want)
            return


def part_d(ctx, ok):
    try:
        from hed import load_schema_version
        schema = load_schema_version("8.3.0")
    except Exception:
        schema = None
        ctx.notes.append("schema 8.3.0 not loadable: the validate operation of histories is skipped")
    n = 150 if ctx.quick() else 4000
    for i in range(n):
        run_history(ctx, ok, gen_history(ctx.rng), schema)
        if i % 100 == 0:
            ctx.check_time()
    ctx.extra["object_histories"] = n


def part_c(ctx):
    """the two cell handlers and the row filter directly: every cell of <= 3 characters over the characters of
    `n/a`, its upper-case forms, blank, `#`, `0`, `x` (all substrings, paddings and spellings of n/a among them)"""
    import pandas as pd
    from hed.models.column_mapper import ColumnMapper
    from hed.models.base_input import BaseInput
    alphabet = "n/aNA #0x"
    cells = [""] + ["".join(t) for k in (1, 2, 3) for t in itertools.product(alphabet, repeat=k)]
    cells += ["n/a ", " n/a", "n/a/", "/n/a", "n/an/a", "nan", "NaN", "None", "null", "n/a\t"]
    entries = [["n", "E1"], ["N/A", "E2"], ["n/a", "E3"], ["", "E4"], ["na", "E5"], ["a", "E6"]]
    kept = list(BaseInput.combine_dataframe(pd.DataFrame({"c": cells}, dtype=str)))
    for template in ("Label/#", "(Label/#, Red)", "#", "n/a#", "Age/# years"):
        m = ctx.model.batch([{"op": "c06.handlers", "template": template, "cells": cells, "entries": entries}])[0]
        for i, cell in enumerate(cells):
            case = {"handler_cell": cell, "template": template, "entries": entries}
            ctx.case(("h", template, cell), nontrivial=cell in SUBSTR or cell in MISSING or "n/a" in cell.lower())
            try:
                v = ColumnMapper._value_handler(template, cell)
                c = ColumnMapper._category_handler(dict(entries), cell)
            except Exception as e:
                ctx.violation("handler-raised", case, f"{type(e).__name__}: {e}")
                continue
            if v != m["value"][i]:
                ctx.disagree("Assemble.valueHandler/isMissing = ColumnMapper._value_handler", case, m["value"][i], v)
            if c != m["category"][i]:
                ctx.disagree("Assemble.categoryHandler = ColumnMapper._category_handler", case, m["category"][i], c)
            if (kept[i] == cell and cell != "") != m["keep"][i]:
                ctx.disagree("Assemble.keep = filter of combine_dataframe", case, m["keep"][i], kept[i])
            # the property: only exactly n/a and the empty cell are missing
            missing = cell in MISSING
            if v != ("n/a" if missing else template.replace("#", cell)):
                ctx.violation("value-cell-missing-only-if-n/a-or-empty", case, {"got": v})
            if (kept[i] == "") != missing:
                ctx.violation("row-item-skipped-only-if-n/a-or-empty", case, {"got": kept[i]})
            if c != dict(entries).get(cell, ""):
                ctx.violation("categorical-entry-is-the-one-keyed-by-the-cell", case, {"got": c})
    ctx.extra["handler_cells"] = len(cells)


def gen_input(rng, i):
    """(spec, header, rows, via_file, index): every 7th pair goes through a .tsv file; of the DataFrame inputs ~45 % carry
    row labels other than 0..n-1 (2-6 rows), and 60 % of those (25 % of the others) are dense, i.e. no referenced
    column has a missing cell"""
    via_file = i % 7 == 3
    labelled = not via_file and rng.random() < 0.45
    dense = rng.random() < (0.6 if labelled else 0.25)
    spec, header, rows = gen_pair(rng, dense=dense, min_rows=2 if labelled else 1, max_rows=6 if labelled else 4)
    return spec, header, rows, via_file, gen_index(rng, len(rows)) if labelled else None


def _impl_worker(args):
    spec, header, rows, via_file, index, tmpdir = args
    try:
        return impl_pair(spec, header, rows, via_file, tmpdir, index)
    except Exception as e:     # reported as a violation by the parent
        return {"raised": f"{type(e).__name__}: {e}"}


def part_b_batched(ctx, ok):
    """implementation side in chunks (forked workers in the thorough tier), one driver process per chunk"""
    import multiprocessing
    import shutil
    import tempfile
    tmpdir = tempfile.mkdtemp(prefix="hedverif_c06_")
    pool = None if ctx.quick() else multiprocessing.get_context("fork").Pool(4)
    try:
        n = 2000 if ctx.quick() else 42000
        pairs = FIXED_PAIRS() + [gen_input(ctx.rng, i) for i in range(n)]
        for lo in range(0, len(pairs), 1000):
            chunk = [p + (tmpdir,) for p in pairs[lo:lo + 1000]]
            impls = pool.map(_impl_worker, chunk, chunksize=25) if pool else [_impl_worker(a) for a in chunk]
            todo = []
            for (spec, header, rows, via_file, index, _), impl in zip(chunk, impls):
                case = make_case(spec, header, rows, via_file, index)
                if "raised" in impl:
                    ctx.violation("assembly-raised", case, impl["raised"])
                else:
                    todo.append((case, spec, impl))
            ans = ctx.model.batch([model_request(spec, impl) for _, spec, impl in todo])
            for (case, spec, impl), m in zip(todo, ans):
                judge_pair(ctx, ok, case, spec, impl, m)
            ctx.check_time()
        ctx.extra["sidecar_table_pairs"] = len(pairs)
    finally:
        if pool:
            pool.terminate()
        shutil.rmtree(tmpdir, ignore_errors=True)


def make_case(spec, header, rows, via_file, index=None):
    return {"sidecar": {c: s["entry"] for c, s in spec.items()}, "header": header, "rows": rows,
            "via_file": via_file, "index": None if via_file else index,
            "spec": {c: {"kind": s["kind"], "trees": [[k, t] for k, t in s["trees"].items()]} for c, s in spec.items()}}


def spec_of_case(case):
    def tup(t):
        return [(n[0], tup(n[1])) if n[0] == "grp" else (n[0], n[1]) for n in t]
    return {c: {"kind": s["kind"], "entry": case["sidecar"][c], "trees": {k: tup(t) for k, t in s["trees"]}}
            for c, s in case["spec"].items()}


def model_request(spec, impl):
    return {"op": "c06.assemble", "sidecar": [[c, enc(s["entry"])] for c, s in spec.items()],
            "header": impl["header"], "rows": impl["table"], "ref_order": impl["refs"]}


def FIXED_PAIRS():
    t = lambda x: ("tag", x)   # noqa: E731
    r = lambda x: ("ref", x)   # noqa: E731
    plain = [
        ({"col": {"kind": "categorical", "entry": {"HED": {"k1": "Red", "k2": "Blue"}},
                  "trees": {"k1": [t("Red")], "k2": [t("Blue")]}},
          "v": {"kind": "value", "entry": {"HED": "{col}, Square, Label/#"},
                "trees": {None: [r("col"), t("Square"), t("Label/#")]}}},
         ["v", "col"], [["3", "n/a"], ["4", "zz"], ["5", "k1"], ["n/a", "k2"], ["", ""]]),
        ({"1": {"kind": "value", "entry": {"HED": "Label/#"}, "trees": {None: [t("Label/#")]}},
          "c": {"kind": "categorical", "entry": {"HED": {"k1": "Red, {1}, Blue", "k2": "({1}), ({HED}, Big)"}},
                "trees": {"k1": [t("Red"), r("1"), t("Blue")],
                          "k2": [("grp", [r("1")]), ("grp", [r("HED"), t("Big")])]}}},
         ["c", "HED", "1"], [["k1", "Pink", "n/a"], ["k2", "n/a", "n/a"], ["k2", "Pink", "7"], ["k1", "", ""]]),
        # the registered family C06-padded-na-reference-cell: HED cell 'n/a ' next to a removed reference
        ({"Z": {"kind": "value", "entry": {"HED": "Age/# years"}, "trees": {None: [t("Age/# years")]}},
          "k": {"kind": "categorical", "entry": {"HED": {"k2": "{HED}, {Z}"}}, "trees": {"k2": [r("HED"), r("Z")]}}},
         ["Z", "k", "HED"], [["n/a", "k2", "n/a "], ["3", "k2", "n/a "], ["n/a", "k2", "Pink"]]),
        ({"b": {"kind": "value", "entry": {"HED": " {HED}, Age/# years"},
                "trees": {None: [r("HED"), t("Age/# years")]}}},
         ["HED", "b"], [["n/a", "3"], ["Pink", "3"], ["", ""]]),
    ]
    # the events table of a recording and the frames a user cuts out of it: only the trials (labels 1, 2, 4, 5, 6; every
    # response filled in), the same renumbered, the second half (labels 3..6, one response missing), as a file, and the
    # trials under other labels
    seed_spec = {
        "trial_type": {"kind": "categorical", "entry": {"HED": {"go": "(Red, {resp})", "stop": "Blue, {resp}"}},
                       "trees": {"go": [("grp", [t("Red"), r("resp")])], "stop": [t("Blue"), r("resp")]}},
        "resp": {"kind": "categorical", "entry": {"HED": {"left": "Left-side-of", "right": "Right-side-of"}},
                 "trees": {"left": [t("Left-side-of")], "right": [t("Right-side-of")]}},
        "dur": {"kind": "value", "entry": {"HED": "Duration/# s"}, "trees": {None: [t("Duration/# s")]}},
        "note": {"kind": "ignored", "entry": {"Description": "free text, carries no HED"}, "trees": {}}}
    hdr = ["onset", "trial_type", "resp", "dur", "note"]
    rec = [["0.5", "rest", "n/a", "n/a", "a"], ["1.0", "go", "left", "1", "b"], ["2.0", "stop", "right", "2", "c"],
           ["3.5", "rest", "n/a", "n/a", "d"], ["4.0", "go", "right", "3", "e"], ["5.5", "stop", "left", "n/a", "f"],
           ["6.0", "go", "left", "5", "g"]]
    trials = [x for x in rec if x[1] != "rest"]
    cut = [(seed_spec, hdr, rec, False, None),
           (seed_spec, hdr, trials, False, {"how": "filtered", "labels": [1, 2, 4, 5, 6], "filler": rec[0]}),
           (seed_spec, hdr, trials, False, None),
           (seed_spec, hdr, rec[3:], False, {"how": "sliced", "labels": [3, 4, 5, 6], "filler": rec[0]}),
           (seed_spec, hdr, trials[1:], False, {"how": "sliced", "labels": [1, 2, 3, 4], "filler": rec[1]}),
           (seed_spec, hdr, trials, True, None),
           (seed_spec, hdr, trials[:4], False, {"how": "stepped", "labels": [1, 3, 5, 7], "filler": rec[0]})]
    for how, labels in (("permuted", [3, 0, 4, 1, 2]), ("gapped", [10, 20, 30, 40, 50]), ("strings", list("abcde")),
                        ("strings", ["4", "3", "2", "1", "0"]), ("duplicated", [0, 1, 1, 2, 0]),
                        ("duplicated", ["a", "a", "b", "b", "a"]), ("negative", [-1, -2, -3, -4, -5]),
                        ("float", [0.5, 1.5, 2.5, 3.5, 4.5])):
        cut.append((seed_spec, hdr, trials, False, {"how": how, "labels": labels}))
    # the earlier fixed pairs under the default labels and under cut-out / relabelled ones
    out = [p + (False, None) for p in plain]
    for k, (spec, header, rows) in enumerate(plain):
        n = len(rows)
        out.append((spec, header, rows, False, {"how": "filtered", "labels": [2 * i + 1 for i in range(n)]}))
        out.append((spec, header, rows, False, {"how": "permuted", "labels": [(i + 1) % n for i in range(n)]}))
    return out + cut


def run(ctx):
    ok = checker()
    ctx.extra["rule"] = ("(a) every string of <= N tokens over {R, blank, ',', '(', ')', {c}} with a reference x value in "
                         "{n/a, '', tag, group}; non-trivial = well-formed input with whole-tag references and a removal; "
                         "(b) random sidecars (1-4 columns: categorical/value/ignored/malformed, optional HED column, 0-2 "
                         "references incl. {HED} placed alone/first/middle/last/in parentheses/sole group member/nested) x "
                         "tables over keys, n/a, empty, unknown; shuffled file order; DataFrame and .tsv input; ~38 % of the pairs are "
                         "DataFrames whose row labels are not 0..n-1 (filtered, sliced, stepped, permuted, gapped, negative, "
                         "float, string, duplicated), 60 % of those with every cell of the referenced columns filled in; "
                         "non-trivial = at least one reference and two transformer columns")
    t = {"obligations": round(ctx.elapsed(), 1)}
    part_a(ctx, ok)
    t["replace_ref streams"] = round(ctx.elapsed(), 1)
    part_c(ctx)
    t["handlers"] = round(ctx.elapsed(), 1)
    part_b_batched(ctx, ok)
    t["sidecar x table"] = round(ctx.elapsed(), 1)
    part_d(ctx, ok)
    t["object histories"] = round(ctx.elapsed(), 1)
    ctx.extra["elapsed_after_phase_s"] = t
    ctx.notes.append("reported, not judged: (1) the .tsv loader (pandas default NA strings) reads N/A, NA, nan, NaN, None, "
                     "null, NULL, #N/A, <NA>, -nan as n/a before assembly (histogram tsv-loader-reads-cell-as-n/a); "
                     "(2) a categorical entry keyed 'n/a' or '' in the sidecar is selected by an n/a / empty cell "
                     "(_category_handler has no missing-cell test); (3) a blank-only HED cell is kept as an item")
    ctx.notes.append("referenced columns carry no references themselves (the iteration order of the reference set is "
                     "taken from the implementation and the model is also run with the reversed order)")
    ctx.notes.append("ASCII names and blanks.  Row labels of DataFrame inputs: 0..n-1, rows cut out of a longer frame "
                     "(boolean mask, iloc[k:], iloc[k::2]), permuted, gapped, negative, float, string and duplicated labels; "
                     "the annotations are judged by position and every returned Series / DataFrame must carry exactly the "
                     "labels of the table handed in, in its order (that is what the unchanged code returns, duplicates "
                     "included); MultiIndex and datetime labels are not generated")


def replay(ctx, rec):
    ok = checker()
    case = rec.get("case") or (rec.get("disagreements") or [{}])[0].get("case")
    if not case:
        print("nothing to replay (obligation-only record):", rec.get("broken_obligations"))
        return
    if "history" in case:
        hc = case["history"]
        try:
            from hed import load_schema_version
            schema = load_schema_version("8.3.0")
        except Exception:
            schema = None
        run_history(ctx, ok, {"A": spec_of_case(hc["A"]), "B": spec_of_case(hc["B"]), "header": hc["A"]["header"],
                              "rows": hc["A"]["rows"], "ops": hc["ops"], "index": hc.get("index")}, schema)
    elif "handler_cell" in case:
        part_c(ctx)
    elif "text" in case and "a" in case:
        check_two(ctx, ok, [case["text"]], case["a"], case["b"])
    elif "text" in case:
        check_replace(ctx, [case["text"]], case.get("name", "c"), case.get("value", "n/a"), ok)
    else:
        import shutil
        import tempfile
        tmpdir = tempfile.mkdtemp(prefix="hedverif_c06_")
        try:
            spec = spec_of_case(case)
            full = make_case(spec, case["header"], case["rows"], case.get("via_file", False), case.get("index"))
            impl = _impl_worker((spec, case["header"], case["rows"], case.get("via_file", False), case.get("index"), tmpdir))
            if "raised" in impl:
                ctx.violation("assembly-raised", full, impl["raised"])
            else:
                m = ctx.model.batch([model_request(spec, impl)])[0]
                judge_pair(ctx, ok, full, spec, impl, m)
        finally:
            shutil.rmtree(tmpdir, ignore_errors=True)
    print("replayed", json.dumps(case)[:300])
