"""C12 — Every reported issue is well-formed and points at the offending text."""
import ast
import copy
import json

from harness import extract
from harness.common import REPO

THEOREMS = [
    "HedVerif.C12.decorate_keeps_code_severity",
    "HedVerif.C12.offsets_in_range",
    "HedVerif.C12.fragment_is_text_slice",
    "HedVerif.C12.suffix_once",
    "HedVerif.C12.suffix_twice_counterexample",
    "HedVerif.C12.pipeline_filter",
    "HedVerif.C12.sort_perm",
    "HedVerif.C12.sort_ordered",
    "HedVerif.C12.sort_stable",
    "HedVerif.C12.key_lexicographic",
    "HedVerif.C12.export_json",
    "HedVerif.C12.sort_list_spec",
]
BUDGET = {"quick": 900, "thorough": 3600}


def extract_sort_list():
    """default_sort_list / int_sort_list of error_reporter.py, with ErrorContext values from error_types.py"""
    types = ast.parse((REPO / "hed/errors/error_types.py").read_text())
    ctxvals = {}
    for node in ast.walk(types):
        if isinstance(node, ast.ClassDef) and node.name == "ErrorContext":
            for st in node.body:
                if isinstance(st, ast.Assign) and isinstance(st.value, ast.Constant):
                    ctxvals[st.targets[0].id] = st.value.value
    assigns = extract.module_assigns("hed/errors/error_reporter.py")

    def names(node):
        return [ctxvals[e.attr] for e in node.elts]
    order = names(assigns["default_sort_list"])
    ints = set(names(assigns["int_sort_list"]))
    body = ",\n  ".join(f"({extract.lean_str(n)}.toList, {'true' if n in ints else 'false'})" for n in order)
    spec = [ctxvals[k] for k in ("FILE_NAME", "SIDECAR_COLUMN_NAME", "SIDECAR_KEY_NAME", "ROW")]
    text = ("-- GENERATED from hed/errors/error_reporter.py and error_types.py by harness/props/c12.py; do not edit\n"
            "import HedVerif.Model.Tok\nnamespace HedVerif.Generated.C12\n\n"
            "/-- `default_sort_list` in order, with the `int_sort_list` flag -/\n"
            f"def sortList : List (Str × Bool) := [\n  {body}]\n\n"
            "/-- the context names the property orders by: file, sidecar column, sidecar key, row -/\n"
            f"def specOrder : List Str := [{', '.join(extract.lean_str(s) + '.toList' for s in spec)}]\n\n"
            "end HedVerif.Generated.C12\n")
    extract.write_if_changed(extract.GEN / "C12Sort.lean", text)


EXTRACT = [extract_sort_list]


def span_of(issue):
    hs = issue.get("ec_HedString")
    tag = issue.get("source_tag")
    if hs is None or tag is None or isinstance(tag, int):
        return None, None
    return hs, hs._get_org_span(tag)


def check_issue(ctx, issue, where, passes):
    """field and offset clauses on one implementation issue; returns model request or None"""
    if not isinstance(issue.get("code"), str) or not isinstance(issue.get("message"), str) or issue.get("severity") not in (1, 10):
        ctx.violation("issue-missing-code-message-severity", where, {k: str(v)[:60] for k, v in issue.items()})
        return None
    n_suffix = issue["message"].count("Problem spans string indexes")
    if n_suffix > 1:
        ctx.violation("location-suffix-more-than-once", where, {"code": issue["code"], "message": issue["message"][-120:]},
                      signature=None)
    if "char_index" not in issue:
        return None
    hs, span = span_of(issue)
    ci, cie = issue["char_index"], issue.get("char_index_end", issue["char_index"] + 1)
    if hs is None:
        # character issues on the raw string (char_index given directly by the rule)
        text = issue.get("source_string")
        if text is not None and not (0 <= ci < len(text)):
            ctx.violation("char-index-outside-text", where, {"code": issue["code"], "ci": ci, "len": len(text)})
        return None
    text = hs.get_original_hed_string()
    s, e = span
    if s is None:
        return None
    ctx.count("offsets-checked")
    if not (0 <= s <= ci <= cie <= e <= len(text)):
        # known family: character errors of a Def value are indexed in the definition's placeholder tag
        sig = "C12-def-value-char-index" if getattr(issue["source_tag"], "short_base_tag", "") in ("Def", "Def-expand") \
            and "index_in_tag" in issue else None
        ctx.violation("offsets-outside-tag-span-or-text", where,
                      {"code": issue["code"], "span": [s, e], "char": [ci, cie], "len": len(text)}, sig)
        return None
    tag = issue["source_tag"]
    # the span reported for the named tag/group must select that tag's own text in the validated string
    own = getattr(tag, "org_tag", None)
    if own is None and hasattr(tag, "get_original_hed_string") and getattr(tag, "is_group", False):
        own = None if text[s:e][:1] == "(" and text[s:e][-1:] == ")" else "(group text)"
        if own is not None:
            ctx.violation("span-does-not-select-the-named-group", where, {"code": issue["code"], "span": [s, e], "slice": text[s:e]})
    elif own is not None and not getattr(tag, "_tag", None) and text[s:e] != own:
        ctx.violation("span-does-not-select-the-named-tag", where,
                      {"code": issue["code"], "span": [s, e], "slice": text[s:e], "tag": own})
    if "index_in_tag" in issue and not getattr(tag, "_tag", None):
        frag = text[ci:cie]
        quoted = tag.org_tag[issue["index_in_tag"]:issue.get("index_in_tag_end")]   # what the message wrapper quotes
        if frag != quoted or (frag and frag not in issue["message"]):
            ctx.violation("offsets-do-not-select-quoted-fragment", where,
                          {"code": issue["code"], "fragment": frag, "message": issue["message"][:160]})
    req = {"op": "c12.decorate", "hasString": True, "passes": passes,
           "issue": {"severity": issue["severity"], "span": [s, e], "modified": bool(getattr(tag, "_tag", None)),
                     "idx": issue.get("index_in_tag"), "idxEnd": issue.get("index_in_tag_end")}}
    req["issue"] = {k: v for k, v in req["issue"].items() if v is not None}
    return req, [ci, cie], n_suffix


def key_view(i):
    return (i["code"], i["severity"], i.get("char_index"), i.get("char_index_end"), i.get("ec_row"), i.get("ec_column"),
            i.get("ec_sidecarColumnName"), i.get("ec_sidecarKeyName"))


def gen_strings(ctx, n):
    pieces = ["Red", "Blue", "Sensory-event", "Label/x y", "Duration/3 s", "Duration/3 Seconds", "Duration/x ms", "Def/Abc",
              "Item/Object", "Green/Ext", "Red/Qq/Blue", "Zork", "Event/Sensory-event", "Label/a#b", "Age/5", "Age/abc",
              "(Red, Blue)", "(Red, Red)", "((Green))", "Onset", "(Onset)", "(Def/A, Onset)", "Delay/2 s", "#", "{col}",
              "Label/{x}", "Red~", "Ré", "Time-interval/3 ms", "Property/Task-property/Task-event-role/Experimental-stimulus",
              "Description/Some text here.", "Label/", "/Red", "Red//Blue", "xx:Red", "Definition/D1", "(Definition/D1, (Red))"]
    seps = [", ", ",", " , ", ",,", "", " "]
    out = []
    for _ in range(n):
        k = ctx.rng.randint(1, 6)
        s = ""
        for j in range(k):
            p = ctx.rng.choice(pieces)
            if ctx.rng.random() < 0.2:
                p = "(" + p + ", " + ctx.rng.choice(pieces) + ")"
            s += p + (ctx.rng.choice(seps) if j < k - 1 else "")
        if ctx.rng.random() < 0.1:
            s = s.replace("(", "", 1)
        out.append(s)
    return out


def run(ctx):
    import io
    import pandas as pd
    from hed import HedString, load_schema_version, Sidecar, TabularInput
    from hed.errors.error_reporter import ErrorHandler, sort_issues, replace_tag_references
    from hed.errors.error_types import ErrorContext
    schema = load_schema_version("8.3.0")
    ctx.extra["rule"] = ("issues produced by string / sidecar / table validation of generated inputs, warnings on and off, with and "
                         "without a caller-supplied handler holding a HED_STRING context, decorated once more; non-trivial = an "
                         "issue carrying character offsets")
    reqs, expect = [], []
    strings = ["Red/xyz, Blue", "Duration/3 Seconds", ")("] + gen_strings(ctx, 2500 if ctx.quick() else 40000)
    all_issues = []
    for s in strings:
        where = {"entry": "string", "text": s}
        try:
            hs = HedString(s, schema)
            plain = hs.validate()
            eh = ErrorHandler(check_for_warnings=True)
            eh.push_error_context(ErrorContext.HED_STRING, hs)
            withctx = HedString(s, schema)
            eh2 = ErrorHandler(check_for_warnings=True)
            eh2.push_error_context(ErrorContext.HED_STRING, withctx)
            full = withctx.validate(error_handler=eh2)
            eh3 = ErrorHandler(check_for_warnings=False)
            hs3 = HedString(s, schema)
            eh3.push_error_context(ErrorContext.HED_STRING, hs3)
            errs_only = hs3.validate(error_handler=eh3)
        except IndexError:
            ctx.count("validate-raised-IndexError(C04 finding)")
            continue
        except Exception as e:
            ctx.violation("validation-raised", where, f"{type(e).__name__}: {e}")
            continue
        ctx.case(s, nontrivial=any("char_index" in i for i in full), sample=where if len(ctx.samples) < 4 and full else None)
        if [key_view(i) for i in errs_only] != [key_view(i) for i in full if i["severity"] == 1]:
            ctx.violation("errors-only-not-the-error-subset", where,
                          {"off": [key_view(i)[:4] for i in errs_only], "on": [key_view(i)[:4] for i in full]})
        for i in full:
            ctx.count("code:" + i["code"])
            r = check_issue(ctx, i, where, 2)
            if r:
                reqs.append(r[0]); expect.append((where, r[1], r[2], i["code"]))
        # a third pass through decoration must change nothing observable
        before = [(i.get("char_index"), i["message"]) for i in full]
        eh2.add_context_and_filter(full)
        if before != [(i.get("char_index"), i["message"]) for i in full]:
            ctx.violation("decoration-not-idempotent", where, {"code": [i["code"] for i in full]})
        for i in plain:
            check_issue(ctx, i, where, 1)
        all_issues.append(full)
        if len(all_issues) % 500 == 0:
            ctx.check_time()
    # values of Def tags are checked inside the definition's placeholder tag (known finding C12-def-value-char-index)
    from hed.models import DefinitionDict
    dd = DefinitionDict("(Definition/P/#, (Label/aaaaaaaaaaaaaaaaaaaaaaaa#)), (Definition/C/#, (Label/#)), (Definition/Q, (Red))", schema)
    for s in ["Def/P/x$", "Def/C/x$1", "Def/C/ok", "(Def/Q, Blue), Def/C/a$b, Green", "Def/C/{x}"]:
        where = {"entry": "string+defs", "text": s}
        hs = HedString(s, schema, dd)
        eh = ErrorHandler(check_for_warnings=True)
        eh.push_error_context(ErrorContext.HED_STRING, hs)
        for i in hs.validate(error_handler=eh):
            ctx.count("defs-code:" + i["code"])
            check_issue(ctx, i, where, 2)
        ctx.case(("defs", s), nontrivial=True)
    # sidecars and tables
    sidecar = {"cat": {"HED": {"a": "Red, Zork", "b": "(Blue, Blue)", "c": "Green/Ext"}}, "val": {"HED": "Age/#, Label/#"},
               "bad": {"HED": {"x": "Label/# "}}, "ref": {"HED": {"q": "{cat}, Red"}}}
    sc = Sidecar(io.StringIO(json.dumps(sidecar)))
    for warn in (True, False):
        iss = sc.validate(schema, error_handler=ErrorHandler(check_for_warnings=warn))
        where = {"entry": "sidecar", "warnings": warn}
        for i in iss:
            check_issue(ctx, i, where, 1)
        if warn:
            sc_all = iss
        else:
            if [key_view(i) for i in iss] != [key_view(i) for i in sc_all if i["severity"] == 1]:
                ctx.violation("errors-only-not-the-error-subset", where, {"off": len(iss), "on": len(sc_all)})
    all_issues.append(sc_all)
    ntab = 60 if ctx.quick() else 600
    for t in range(ntab):
        rows = ctx.rng.randint(1, 6)
        cells = gen_strings(ctx, rows)
        df = pd.DataFrame({"onset": [str(1.0 + k) for k in range(rows)], "duration": ["n/a"] * rows, "HED": cells,
                           "cat": [ctx.rng.choice(["a", "b", "c", "n/a", "zz"]) for _ in range(rows)]})
        if t % 2:
            # no onset column: rows are validated as strings combined from their cells (span remapping)
            df = df.drop(columns=["onset", "duration"])
        where = {"entry": "table", "cells": cells}
        try:
            on = TabularInput(df, sidecar=Sidecar(io.StringIO(json.dumps({"cat": sidecar["cat"]}))), name="t.tsv").validate(
                schema, error_handler=ErrorHandler(check_for_warnings=True))
            off = TabularInput(df, sidecar=Sidecar(io.StringIO(json.dumps({"cat": sidecar["cat"]}))), name="t.tsv").validate(
                schema, error_handler=ErrorHandler(check_for_warnings=False))
        except IndexError:
            ctx.count("validate-raised-IndexError(C04 finding)")
            continue
        except Exception as e:
            ctx.count(f"table-validate-raised-{type(e).__name__}(C07)")
            continue
        ctx.case(("t", tuple(cells)), nontrivial=bool(on))
        if sorted(map(key_view, off), key=repr) != sorted((key_view(i) for i in on if i["severity"] == 1), key=repr):
            ctx.violation("errors-only-not-the-error-subset", where, {"off": len(off), "on": len(on)})
        for i in on:
            r = check_issue(ctx, i, where, 1)
            if r:
                reqs.append(r[0]); expect.append((where, r[1], r[2], i["code"]))
        all_issues.append(on)
    # model: decoration
    ans = ctx.model.batch(reqs)
    for a, (where, ch, nsuf, code) in zip(ans, expect):
        if a["charIdx"] != ch or a["suffixes"] != nsuf:
            ctx.disagree("Issue.updateCharPos = _update_error_with_char_pos", {**where, "code": code}, a, {"charIdx": ch, "suffixes": nsuf})
    # sorting: real issue lists, shuffled, plus synthetic contexts
    sort_reqs, sort_expect = [], []
    names = [n for n, _ in ctx.model.batch([{"op": "c12.sortlist"}])[0]]
    for lst in all_issues[-200:] + [None] * (100 if ctx.quick() else 2000):
        if lst is None:
            lst = []
            for k in range(ctx.rng.randint(2, 9)):
                d = {"code": "X", "message": "m", "severity": 1}
                for n in names:
                    if ctx.rng.random() < 0.4:
                        d[n] = ctx.rng.randint(0, 4) if n == "ec_row" else \
                            (ctx.rng.choice([0, 2, 10, 3]) if n == "ec_column" and ctx.rng.random() < 0.5 else
                             ctx.rng.choice(["", "a", "b", "B", "ab", "é", "1", "10"]))
                lst.append(d)
        else:
            lst = [dict(i) for i in lst]
            ctx.rng.shuffle(lst)
        if len(lst) < 2:
            continue
        for k, d in enumerate(lst):
            d["_id"] = k
        try:
            srt = sort_issues(lst)
        except TypeError:
            ctx.count("sort-typeerror-mixed-context-types")
            continue
        ctx.evaluations += 1
        items = []
        for d in lst:
            c = {n: d[n] for n in names if n in d and isinstance(d[n], (str, int))}
            items.append({"id": d["_id"], "severity": d["severity"], "ctx": c})
        sort_reqs.append({"op": "c12.sort", "issues": items})
        sort_expect.append([d["_id"] for d in srt])
        # direct oracle: permutation + stable + ordered by the spec keys
        keyf = lambda d: tuple(d.get(n, -1) if n == "ec_row" else str(d.get(n, "")) for n in names)
        if sorted(d["_id"] for d in srt) != list(range(len(lst))):
            ctx.violation("sort-not-a-permutation", {"n": len(lst)}, None)
        # the property's own order (hand-written, not taken from the source): file, sidecar column, sidecar key, row
        spec = lambda d: (d.get("ec_filename", ""), d.get("ec_sidecarColumnName", ""), d.get("ec_sidecarKeyName", ""),
                          d.get("ec_row", -1))
        if all("ec_title" not in d for d in srt):
            for a, b in zip(srt, srt[1:]):
                if spec(b) < spec(a):
                    ctx.violation("sort-not-by-file-sidecar-column-key-row", {"a": list(map(str, spec(a))), "b": list(map(str, spec(b)))}, None)
        for a, b in zip(srt, srt[1:]):
            if keyf(b) < keyf(a) or (keyf(a) == keyf(b) and a["_id"] > b["_id"]):
                ctx.violation("sort-not-ordered-or-not-stable", {"keys": [list(map(str, keyf(a))), list(map(str, keyf(b)))]}, None)
    for a, e, r in zip(ctx.model.batch(sort_reqs), sort_expect, sort_reqs):
        if a["order"] != e:
            ctx.disagree("Issue.sortBy = sort_issues", {"issues": r["issues"]}, a["order"], e)
    ctx.count("sort-cases", len(sort_reqs))
    # export
    for lst in all_issues[:300]:
        cp = copy.copy([dict(i) for i in lst])
        codes = [i["code"] for i in cp]
        replace_tag_references(cp)
        try:
            json.dumps(cp)
        except Exception as e:
            ctx.violation("export-not-json-serialisable", {"codes": codes}, f"{type(e).__name__}: {e}")
        if [i["code"] for i in cp] != codes:
            ctx.violation("export-changed-codes", {"codes": codes}, None)


def replay(ctx, rec):
    from hed import HedString, load_schema_version
    from hed.errors.error_reporter import ErrorHandler
    from hed.errors.error_types import ErrorContext
    case = rec.get("case") or (rec.get("disagreements") or [{}])[0].get("case")
    if not case or "text" not in case:
        print("nothing to replay:", json.dumps(rec)[:300])
        return
    schema = load_schema_version("8.3.0")
    hs = HedString(case["text"], schema)
    eh = ErrorHandler()
    eh.push_error_context(ErrorContext.HED_STRING, hs)
    for i in hs.validate(error_handler=eh):
        print(i["code"], i.get("char_index"), i.get("char_index_end"), i["message"].count("Problem spans"))
        check_issue(ctx, i, case, 2)
