"""C12 — Every reported issue is well-formed and points at the offending text."""
import ast
import copy
import json

from harness import extract
from harness.common import REPO

THEOREMS = [
    "HedVerif.C12.decorate_keeps_code_severity",
    "HedVerif.C12.offsets_in_range",
    "HedVerif.C12.fragment_is_text_slice",
    "HedVerif.C12.suffix_once",
    "HedVerif.C12.suffix_twice_counterexample",
    "HedVerif.C12.pipeline_filter",
    "HedVerif.C12.sort_perm",
    "HedVerif.C12.sort_ordered",
    "HedVerif.C12.sort_stable",
    "HedVerif.C12.key_lexicographic",
    "HedVerif.C12.export_json",
    "HedVerif.C12.sort_list_spec",
    # context stack (Props/C12Stack.lean)
    "HedVerif.C12.push_pop",
    "HedVerif.C12.push_keeps_value",
    "HedVerif.C12.push_none_default",
    "HedVerif.C12.format_carries_stack",
    "HedVerif.C12.format_drops_warning",
    "HedVerif.C12.formatted_issues_fixed",
    "HedVerif.C12.format_in_history",
    # printable grouping
    "HedVerif.C12.print_insert",
    "HedVerif.C12.print_perm",
    "HedVerif.C12.print_lines_issues",
    "HedVerif.C12.print_same_path",
    "HedVerif.C12.print_groups_stable",
    "HedVerif.C12.printed_annotated",
]
# composition with the string-validator model (C01) and the closed file / sidecar models
EXTRA_AUDIT = ("HedVerif.Props.C12Closed", [
    "HedVerif.C12.validateW_true",
    "HedVerif.C12.gates_see_errors_only",
    "HedVerif.C12.validate_filter",
    "HedVerif.C12.offsets_closed",
    "HedVerif.C12.offsets_closed_span_partial",
    "HedVerif.C12.offsets_def_value_counterexample",
    "HedVerif.C12.file_validateW_true",
    "HedVerif.C12.file_filter",
    "HedVerif.C12.file_filter_closed",
    "HedVerif.C12.file_gate_counterexample",
    "HedVerif.C12.sidecar_validateW_true",
    "HedVerif.C12.sidecar_filter_partial",
    "HedVerif.C12.sidecar_filter",
    "HedVerif.C12.fold_preserves_length",
    "HedVerif.C12.offsets_length_changing_fold_counterexample",
])
BUDGET = {"quick": 900, "thorough": 3600}


def extract_sort_list():
    """default_sort_list / int_sort_list of error_reporter.py, with ErrorContext values from error_types.py"""
    types = ast.parse((REPO / "hed/errors/error_types.py").read_text())
    ctxvals = {}
    for node in ast.walk(types):
        if isinstance(node, ast.ClassDef) and node.name == "ErrorContext":
            for st in node.body:
                if isinstance(st, ast.Assign) and isinstance(st.value, ast.Constant):
                    ctxvals[st.targets[0].id] = st.value.value
    assigns = extract.module_assigns("hed/errors/error_reporter.py")

    def names(node):
        return [ctxvals[e.attr] for e in node.elts]
    order = names(assigns["default_sort_list"])
    ints = set(names(assigns["int_sort_list"]))
    body = ",\n  ".join(f"({extract.lean_str(n)}.toList, {'true' if n in ints else 'false'})" for n in order)
    spec = [ctxvals[k] for k in ("FILE_NAME", "SIDECAR_COLUMN_NAME", "SIDECAR_KEY_NAME", "ROW")]
    text = ("-- GENERATED from hed/errors/error_reporter.py and error_types.py by harness/props/c12.py; do not edit\n"
            "import HedVerif.Model.Tok\nnamespace HedVerif.Generated.C12\n\n"
            "/-- `default_sort_list` in order, with the `int_sort_list` flag -/\n"
            f"def sortList : List (Str × Bool) := [\n  {body}]\n\n"
            "/-- the context names the property orders by: file, sidecar column, sidecar key, row -/\n"
            f"def specOrder : List Str := [{', '.join(extract.lean_str(s) + '.toList' for s in spec)}]\n\n"
            "end HedVerif.Generated.C12\n")
    extract.write_if_changed(extract.GEN / "C12Sort.lean", text)


EXTRACT = [extract_sort_list]


def span_of(issue):
    hs = issue.get("ec_HedString")
    tag = issue.get("source_tag")
    if hs is None or tag is None or isinstance(tag, int):
        return None, None
    return hs, hs._get_org_span(tag)


# internal kinds of the two errors `_find_tag_entry` emits (NO_VALID_TAG_FOUND, INVALID_PARENT_NODE; published as TAG_INVALID /
# TAG_EXTENSION_INVALID, codes they share with other rules); `_kind` is kept on every issue by the harness-side recorder
LOOKUP_KINDS = ("invalidTag", "invalidParent")


def is_lookup(issue):
    return issue.get("_kind") in LOOKUP_KINDS


def casefold_shifted(issue):
    """the family of finding C12-casefold-length-offsets, decided here without hed: a lookup error (offsets measured by
    `_find_tag_entry` on the casefolded tag) on a tag holding, before the reported end offset (folded coordinates), a
    character whose casefold is not one character long"""
    if not is_lookup(issue) or "index_in_tag" not in issue:
        return False
    text = getattr(issue.get("source_tag"), "org_tag", None)
    end = issue.get("index_in_tag_end")
    if not isinstance(text, str) or end is None:
        return False
    pos = 0
    for c in text:
        if pos >= end:
            break
        if len(c.casefold()) != 1:
            return True
        pos += len(c.casefold())
    return False


def whole_components(tagtext, a, b):
    """a lookup error names whole path components: it starts at the tag's (or namespace's) start or after a slash, ends at
    a slash or the tag's end, and has no slash at either edge"""
    frag = tagtext[a:b]
    return (a == 0 or tagtext[a - 1] in "/:") and (b >= len(tagtext) or tagtext[b] == "/") and bool(frag) \
        and frag[0] != "/" and frag[-1] != "/"


def check_issue(ctx, issue, where, passes):
    """field and offset clauses on one implementation issue; returns model request or None"""
    if not isinstance(issue.get("code"), str) or not isinstance(issue.get("message"), str) or issue.get("severity") not in (1, 10):
        ctx.violation("issue-missing-code-message-severity", where, {k: str(v)[:60] for k, v in issue.items()})
        return None
    n_suffix = issue["message"].count("Problem spans string indexes")
    if n_suffix > 1:
        ctx.violation("location-suffix-more-than-once", where, {"code": issue["code"], "message": issue["message"][-120:]},
                      signature=None)
    if "char_index" not in issue:
        return None
    hs, span = span_of(issue)
    ci, cie = issue["char_index"], issue.get("char_index_end", issue["char_index"] + 1)
    if hs is None:
        # character issues on the raw string (char_index given directly by the rule)
        text = issue.get("source_string")
        if text is not None and not (0 <= ci < len(text)):
            ctx.violation("char-index-outside-text", where, {"code": issue["code"], "ci": ci, "len": len(text)})
        return None
    text = hs.get_original_hed_string()
    s, e = span
    if s is None:
        return None
    ctx.count("offsets-checked")
    if not (0 <= s <= ci <= cie <= e <= len(text)):
        # known family: character errors of a Def value are indexed in the definition's placeholder tag
        sig = "C12-def-value-char-index" if getattr(issue["source_tag"], "short_base_tag", "") in ("Def", "Def-expand") \
            and "index_in_tag" in issue else ("C12-casefold-length-offsets" if casefold_shifted(issue) else None)
        if sig == "C12-casefold-length-offsets":
            ctx.count("casefold-family:offsets-outside")
        ctx.violation("offsets-outside-tag-span-or-text", where,
                      {"code": issue["code"], "span": [s, e], "char": [ci, cie], "len": len(text)}, sig)
        return None
    tag = issue["source_tag"]
    # the span reported for the named tag/group must select that tag's own text in the validated string
    own = getattr(tag, "org_tag", None)
    if own is None and hasattr(tag, "get_original_hed_string") and getattr(tag, "is_group", False):
        own = None if text[s:e][:1] == "(" and text[s:e][-1:] == ")" else "(group text)"
        if own is not None:
            ctx.violation("span-does-not-select-the-named-group", where, {"code": issue["code"], "span": [s, e], "slice": text[s:e]})
    elif own is not None and not getattr(tag, "_tag", None) and text[s:e] != own:
        ctx.violation("span-does-not-select-the-named-tag", where,
                      {"code": issue["code"], "span": [s, e], "slice": text[s:e], "tag": own})
    if "index_in_tag" in issue and not getattr(tag, "_tag", None):
        frag = text[ci:cie]
        quoted = tag.org_tag[issue["index_in_tag"]:issue.get("index_in_tag_end")]   # what the message wrapper quotes
        if frag != quoted or (frag and frag not in issue["message"]):
            ctx.violation("offsets-do-not-select-quoted-fragment", where,
                          {"code": issue["code"], "fragment": frag, "message": issue["message"][:160]})
        # the offending fragment of a lookup error is the unknown first term / the misplaced known term: whole components
        if is_lookup(issue) and not whole_components(tag.org_tag, issue["index_in_tag"], issue["index_in_tag_end"]):
            fam = casefold_shifted(issue)
            if fam:
                ctx.count("casefold-family:fragment-not-the-term")
            ctx.violation("lookup-error-fragment-is-not-the-offending-term", where,
                          {"code": issue["code"], "tag": tag.org_tag, "fragment": frag},
                          "C12-casefold-length-offsets" if fam else None)
        elif is_lookup(issue):
            ctx.count("lookup-fragment-checked" + ("-nonascii" if any(ord(c) > 127 for c in tag.org_tag) else ""))
    req = {"op": "c12.decorate", "hasString": True, "passes": passes,
           "issue": {"severity": issue["severity"], "span": [s, e], "modified": bool(getattr(tag, "_tag", None)),
                     "idx": issue.get("index_in_tag"), "idxEnd": issue.get("index_in_tag_end")}}
    req["issue"] = {k: v for k, v in req["issue"].items() if v is not None}
    return req, [ci, cie], n_suffix


def key_view(i):
    return (i["code"], i["severity"], i.get("char_index"), i.get("char_index_end"), i.get("ec_row"), i.get("ec_column"),
            i.get("ec_sidecarColumnName"), i.get("ec_sidecarKeyName"))


def gen_strings(ctx, n):
    pieces = ["Red", "Blue", "Sensory-event", "Label/x y", "Duration/3 s", "Duration/3 Seconds", "Duration/x ms", "Def/Abc",
              "Item/Object", "Green/Ext", "Red/Qq/Blue", "Zork", "Event/Sensory-event", "Label/a#b", "Age/5", "Age/abc",
              "(Red, Blue)", "(Red, Red)", "((Green))", "Onset", "(Onset)", "(Def/A, Onset)", "Delay/2 s", "#", "{col}",
              "Label/{x}", "Red~", "Ré", "Time-interval/3 ms", "Property/Task-property/Task-event-role/Experimental-stimulus",
              "Description/Some text here.", "Label/", "/Red", "Red//Blue", "xx:Red", "Definition/D1", "(Definition/D1, (Red))"]
    seps = [", ", ",", " , ", ",,", "", " "]
    out = []
    for _ in range(n):
        k = ctx.rng.randint(1, 6)
        s = ""
        for j in range(k):
            p = ctx.rng.choice(pieces)
            if ctx.rng.random() < 0.2:
                p = "(" + p + ", " + ctx.rng.choice(pieces) + ")"
            s += p + (ctx.rng.choice(seps) if j < k - 1 else "")
        if ctx.rng.random() < 0.1:
            s = s.replace("(", "", 1)
        out.append(s)
    return out


# ------------------------------------------------------------------------------- context stack (histories)

ROW, COLUMN, FILE, SCOL, SKEY, LINE, TITLE, HEDSTR = ("ec_row", "ec_column", "ec_filename", "ec_sidecarColumnName",
                                                      "ec_sidecarKeyName", "ec_line", "ec_title", "ec_HedString")
STACK_KEYS = [ROW, ROW, COLUMN, COLUMN, FILE, SCOL, SKEY, LINE, TITLE]
STACK_VALS = [None, None, 0, 0, 1, 7, "", "", "a", "0", "HED", "col b"]


def tv(v):
    """type-exact view of a context value: the integer 0, "0" and "" are three different things"""
    if isinstance(v, bool):
        return ["b", v]
    if isinstance(v, int):
        return ["i", v]
    if isinstance(v, str):
        return ["s", v]
    return ["o", v.get_original_hed_string() if hasattr(v, "get_original_hed_string") else str(v)]


def tv_wire(v):
    """the same view of a value that came back from the driver"""
    if isinstance(v, dict):
        return ["o", v["ref"]]
    return tv(v)


def wire(v):
    return v if v is None or isinstance(v, (int, str)) else {"ref": tv(v)[1]}


def gen_history(rng, n=None):
    ops, depth = [], 0
    for k in range(n or rng.randint(3, 14)):
        x = rng.random()
        if x < 0.42:
            ops.append({"t": "push", "k": rng.choice(STACK_KEYS), "v": rng.choice(STACK_VALS)})
            depth += 1
        elif x < 0.62:
            if depth == 0 and rng.random() < 0.8:
                continue
            ops.append({"t": "pop"})
            depth = max(depth - 1, 0)
        elif x < 0.66:
            ops.append({"t": "reset"})
            depth = 0
        else:
            ops.append({"t": "format", "severity": rng.choice([1, 1, 10]), "idx": len(ops), "ctx": []})
    if not any(o["t"] == "format" for o in ops):
        ops.append({"t": "format", "severity": 1, "idx": len(ops), "ctx": []})
    return ops


def ec_items(d):
    return [[k, tv(v)] for k, v in d.items() if k.startswith("ec_")]


def run_history_real(ops, w):
    """the real ErrorHandler: (raised, [(id, issue dict, snapshot of its ec_ items when formatted)], final stack)"""
    from hed.errors.error_reporter import ErrorHandler
    from hed.errors.error_types import ValidationErrors
    eh = ErrorHandler(check_for_warnings=w)
    out = []
    for o in ops:
        if o["t"] == "push":
            eh.push_error_context(o["k"], o["v"])
        elif o["t"] == "pop":
            try:
                eh.pop_error_context()
            except IndexError:
                return True, out, None
        elif o["t"] == "reset":
            eh.reset_error_context()
        else:
            for i in eh.format_error_with_context(ValidationErrors.ONSETS_UNORDERED, severity=o["severity"]):
                out.append((o["idx"], i, ec_items(i)))
    return False, out, [[k, tv(v)] for k, v in eh.error_context]


def expect_history(ops, w):
    """the property, written down independently: an issue carries what is on the stack when it is formatted — per context
    type the innermost value, at the place of the outermost; `None` stands for row 0 / the empty string"""
    stack, out = [], []
    for o in ops:
        if o["t"] == "push":
            v = o["v"]
            stack.append((o["k"], (0 if o["k"] == ROW else "") if v is None else v))
        elif o["t"] == "pop":
            if not stack:
                return True, out
            stack.pop()
        elif o["t"] == "reset":
            stack = []
        elif w or o["severity"] < 10:
            d = {}
            for k, v in stack:
                d[k] = v
            out.append((o["idx"], [[k, tv(v)] for k, v in d.items()]))
    return False, out


def check_history(ctx, ops, w, model):
    case = {"entry": "history", "w": w, "ops": ops}
    raised, out, stack = run_history_real(ops, w)
    eraised, eout = expect_history(ops, w)
    ctx.case(("hist", w, json.dumps(ops)), nontrivial=any(o["t"] == "push" for o in ops))
    ctx.count("history-cases")
    for _, i, snap in out:
        if ec_items(i) != snap:
            ctx.violation("context-of-a-formatted-issue-changed-later", case, {"then": snap, "now": ec_items(i)})
    if raised != eraised or [(k, s) for k, _, s in out] != eout:
        ctx.violation("issue-context-is-not-the-stack-at-format-time(type-exact)", case,
                      {"impl": [(k, s) for k, _, s in out], "expected": eout, "raised": [raised, eraised]})
    if model is not None:
        mine = None if model["raised"] else [(i["id"], [[k, tv_wire(v)] for k, v in i["ctx"] if k.startswith("ec_")])
                                             for i in model["out"]]
        impl = None if raised else [(k, s) for k, _, s in out]
        mstack = None if model["raised"] else [[k, tv_wire(v)] for k, v in model["stack"]]
        if mine != impl or mstack != stack:
            ctx.disagree("Issue.run = ErrorHandler push/pop/reset/format history", case, {"out": mine, "stack": mstack},
                         {"out": impl, "stack": stack})


def run_stack(ctx):
    hist = [[{"t": "push", "k": COLUMN, "v": 0}, {"t": "format", "severity": 1, "idx": 1, "ctx": []}],
            [{"t": "push", "k": ROW, "v": ""}, {"t": "push", "k": ROW, "v": None}, {"t": "push", "k": FILE, "v": None},
             {"t": "format", "severity": 10, "idx": 3, "ctx": []}, {"t": "pop"}, {"t": "format", "severity": 1, "idx": 5, "ctx": []}],
            [{"t": "pop"}]]
    hist += [gen_history(ctx.rng) for _ in range(600 if ctx.quick() else 12000)]
    reqs, meta = [], []
    for ops in hist:
        for w in (True, False):
            reqs.append({"op": "c12.ctx", "w": w, "ops": [dict(o, v=wire(o["v"])) if o["t"] == "push" else o for o in ops]})
            meta.append((ops, w))
    for (ops, w), a in zip(meta, ctx.model.batch(reqs)):
        if "bad-op" in a:
            raise RuntimeError("driver: " + str(a["bad-op"]))
        check_history(ctx, ops, w, a)
    ctx.check_time()


# ------------------------------------------------------------------------------- printable output

def gen_print_case(rng, hs_pool):
    pools = {FILE: ["f1.tsv", "f2.tsv"], ROW: [1, 2, 10], COLUMN: ["a", "b", 0], SCOL: ["cat", "val"], SKEY: ["k1", "k2"],
             LINE: ["3"], TITLE: ["T"], HEDSTR: hs_pool}
    canon = [TITLE, FILE, SCOL, SKEY, ROW, COLUMN, HEDSTR]
    issues = []
    for k in range(rng.randint(1, 9)):
        d = {"code": rng.choice(["TAG_INVALID", "X", "STYLE_WARNING"]), "message": f"msg<{k}>", "severity": rng.choice([1, 1, 10])}
        keys = [x for x in canon if rng.random() < 0.45]
        if rng.random() < 0.3:
            rng.shuffle(keys)
        if rng.random() < 0.3:
            d["source_tag"] = "t"
        for x in keys:
            d[x] = rng.choice(pools[x])
        if rng.random() < 0.3:
            d["char_index"] = 3
        issues.append(d)
    return {"issues": issues, "skip": rng.random() < 0.6, "severity": rng.choice([None, None, 1, 10])}


def own_path(d, skip):
    return [(k, tv(v)[1] if tv(v)[0] == "o" else str(v)) for k, v in d.items() if k.startswith("ec_") and not (skip and k == FILE)]


def check_print(ctx, pc, model):
    import re
    from hed.errors.error_reporter import get_printable_issue_string
    issues, skip, sev = pc["issues"], pc["skip"], pc["severity"]
    case = {"entry": "print", "skip": skip, "severity": sev,
            "issues": [{k: (v if isinstance(v, (int, str)) else {"ref": tv(v)[1]}) for k, v in d.items()} for d in issues]}
    text = get_printable_issue_string(issues, severity=sev, skip_filename=skip, add_link=False)
    lines, pending = [], None
    for ln in text.split("\n"):
        if not ln.strip():
            pending = len(ln)       # the file-name header starts with a line break: its tabs stand on the line before
            continue
        body = ln.lstrip("\t")
        m = re.search(r"msg<(\d+)>$", body)
        lv = pending if (pending is not None and not m and body.startswith("Errors in file '")) else len(ln) - len(body)
        pending = None
        lines.append([lv, "i", int(m.group(1))] if m else [lv, "c", body])
    ctx.case(("print", json.dumps(case, sort_keys=True)), nontrivial=len(issues) >= 2)
    ctx.count("print-cases")
    kept = [k for k, d in enumerate(issues) if sev is None or d["severity"] <= sev]
    printed = [l[2] for l in lines if l[1] == "i"]
    if sorted(printed) != kept:
        ctx.violation("issue-not-printed-exactly-once", case, {"printed": printed, "expected": kept})
    groups = {}
    for k in kept:
        groups.setdefault(json.dumps(own_path(issues[k], skip)), []).append(k)
    for g in groups.values():
        if [k for k in printed if k in g] != g:
            ctx.violation("issues-of-one-context-not-printed-in-list-order", case, {"printed": printed, "group": g})
    heads = []
    for lv, kind, x in lines:
        if kind == "c":
            heads = heads[:lv] + [x]
        else:
            path = own_path(issues[x], skip)
            if lv != len(path) or len(heads) < lv or any(path[j][1] not in heads[j] for j in range(lv)):
                ctx.violation("issue-not-printed-under-its-own-contexts", case, {"id": x, "level": lv, "path": path, "heads": heads[:lv]})
    if model is not None:
        ml = model["lines"]
        same = len(ml) == len(lines) and all(a[0] == b[0] and a[1] == b[1] and (a[2] == b[2] if a[1] == "i" else a[3] in b[2])
                                             for a, b in zip(ml, lines))
        if not same:
            ctx.disagree("Issue.printLines = get_printable_issue_string (levels, headers, issue order)", case, ml, lines)


def print_request(pc):
    return {"op": "c12.print", "skipFile": pc["skip"], "severity": pc["severity"],
            "issues": [{"id": k, "severity": d["severity"], "ctx": [[key, wire(v)] for key, v in d.items()
                                                                     if key not in ("code", "message", "severity")]}
                       for k, d in enumerate(pc["issues"])]}


def run_print(ctx, schema):
    from hed import HedString
    pool = [HedString("Red, Blue", schema), HedString("(Green)", schema)]
    cases = [gen_print_case(ctx.rng, pool) for _ in range(500 if ctx.quick() else 10000)]
    for pc, a in zip(cases, ctx.model.batch([print_request(pc) for pc in cases])):
        if "bad-op" in a:
            raise RuntimeError("driver: " + str(a["bad-op"]))
        check_print(ctx, pc, a)
    ctx.check_time()


# ------------------------------------------------------------------------------- composition with the C01 / C07 / C08 models

SORT_NAMES = None     # [(context name, int-sorted?)] in the order of the generated `default_sort_list` (set in run/replay)


def load_sort_names(ctx):
    global SORT_NAMES
    if SORT_NAMES is None:
        SORT_NAMES = [(n, bool(b)) for n, b in ctx.model.batch([{"op": "c12.sortlist"}])[0]]
    return SORT_NAMES


def order_key(d):
    """our own sort key, built from Generated/C12Sort (the model's `keyOf`): int-sorted contexts as numbers, default -1;
    the others as text, default ''"""
    return tuple((d.get(n, -1) if isint else str(d.get(n, ""))) for n, isint in SORT_NAMES)


def spec_key(d):
    """the property's own words: file, then sidecar column and key, then row"""
    return (str(d.get(FILE, "")), str(d.get(SCOL, "")), str(d.get(SKEY, "")), d.get(ROW, -1))


def check_order(ctx, issues, case, per_file=False):
    """ORDER clause: the list AS RETURNED is ordered (returned == stable sort of returned, i.e. no adjacent descent) by the
    generated key and by (file, sidecar column, sidecar key, row); `per_file`: a dataset's list is the concatenation of its
    files' sorted lists, so only neighbours of the same file are compared"""
    ctx.count("order-checked-lists")
    if len(issues) >= 2 and len({order_key(i) for i in issues}) >= 2:
        ctx.count("order-checked-lists-with-distinct-keys")
    for a, b in zip(issues, issues[1:]):
        if per_file and a.get(FILE) != b.get(FILE):
            continue
        try:
            bad = order_key(b) < order_key(a) or (all(TITLE not in x for x in (a, b)) and spec_key(b) < spec_key(a))
        except TypeError:
            ctx.count("order-key-mixed-types")
            continue
        if bad:
            ctx.violation("returned-issues-not-in-sort-order", case,
                          {"before": [a["code"]] + list(map(str, spec_key(a))), "after": [b["code"]] + list(map(str, spec_key(b))),
                           "codes": [i["code"] for i in issues][:12]})
            return False
    return True


def run_groups(rows):
    """[(row, column), …items] -> runs of equal sort key with their items sorted: the order observable of a table's list"""
    out = []
    for kind, sev, row, col in rows:
        key = [-1 if row is None else row, "" if col is None else col]
        if out and out[-1][0] == key:
            out[-1][1].append([kind, sev])
        else:
            out.append([key, [[kind, sev]]])
    return [[k, sorted(v)] for k, v in out]


ORDER_TABLES = [  # issues of two different passes, the later pass reporting the earlier row
    # onset pass: Offset before its Onset on row 2; per-row pass: unknown tag on row 4
    {"mode": "tabular", "onsets": [8, 16, 24], "cols": [["(Def/A, Offset)", "Red", "Greenish"]], "sidecar": None},
    {"mode": "tabular", "onsets": [8, 16, 24, 32], "cols": [["(Def/A, Onset)", "(Def/A, Inset), (Def/B, Offset)", "Red/Zork", "Blue, Blue"]],
     "sidecar": None},
    # column-structure pass (first): missing category key on row 4; per-row pass: unknown tag on row 2
    {"mode": "sidecar", "onsets": [8, 16, 24], "cols": [["Greenish", "Red", "Blue"], ["a", "b", "zz"]],
     "sidecar": {"cat": {"HED": {"a": "Red", "b": "Blue"}}}},
    {"mode": "sidecar", "onsets": None, "cols": [["Item/Xyz, Red, Red", "Red", "Blue"], ["a", "a", "zz"]],
     "sidecar": {"cat": {"HED": {"a": "Green", "b": "Blue"}}}},
    # unordered onsets: ONSETS_UNORDERED (no row) is produced after the row-bearing structure issues
    {"mode": "sidecar", "onsets": [24, 8, 16], "cols": [["Red", "Greenish", "(Def/A, Offset)"], ["zz", "a", "a"]],
     "sidecar": {"cat": {"HED": {"a": "Green"}}}},
    {"mode": "tabular", "onsets": [24, 8, 16], "cols": [["Zork/Q", "(Def/B, Offset)", "Red"]], "sidecar": None},
]


def gen_order_table(rng):
    """a table that mixes structure (missing key), unordered-onset, per-row and temporal issues, the temporal one early"""
    n = rng.randint(3, 6)
    onsets = rng.sample(range(1, 60), n)
    if rng.random() < 0.6:
        onsets.sort()
    hed = [rng.choice(["Red", "Blue", "Green, Square", "Item/Ext" + str(k)]) for k in range(n)]
    t = rng.randrange(0, n - 1)
    hed[t] = rng.choice(["(Def/A, Offset)", "(Def/B, Inset)", "(Def/A, Onset), (Def/A, Onset)"])
    for r in rng.sample(range(t + 1, n), rng.randint(1, n - 1 - t)):
        hed[r] = rng.choice(["Greenish", "Red/Blue", "Blue, Blue", "Item-count/abc", "(Red"])
    spec = {"mode": "tabular", "onsets": onsets, "cols": [hed], "sidecar": None}
    if rng.random() < 0.6:
        cat = [rng.choice(["a", "b", "n/a"]) for _ in range(n)]
        cat[rng.randrange(t, n)] = "zz"
        spec.update(mode="sidecar", cols=[hed, cat], sidecar={"cat": {"HED": {"a": "Triangle", "b": "(Circle, Cross)"}}})
    return spec


def check_dataset_order(ctx, schema):
    """BidsDataset.validate: per file the sidecar / table validators' sorted lists, concatenated"""
    import os
    import shutil
    import tempfile
    from hed.tools.bids.bids_dataset import BidsDataset
    root = tempfile.mkdtemp(prefix="hv_c12_")
    try:
        with open(os.path.join(root, "dataset_description.json"), "w") as f:
            json.dump({"Name": "c12", "BIDSVersion": "1.8.0", "HEDVersion": "8.3.0"}, f)
        with open(os.path.join(root, "task-x_events.json"), "w") as f:
            json.dump({"cat": {"HED": {"a": "Red", "b": "Item/Xyz, Blue, Blue"}}, "val": {"HED": "Label/#, Zork/#"}}, f)
        tables = {"sub-01": [("2.0", "Greenish", "a"), ("1.0", "Red", "zz"), ("3.0", "Blue, Blue", "b")],
                  "sub-02": [("1.0", "Red", "b"), ("2.0", "Red/Zork", "zz"), ("3.0", "Item/Abc", "a")]}
        for sub, rows in tables.items():
            os.makedirs(os.path.join(root, sub))
            with open(os.path.join(root, sub, f"{sub}_task-x_events.tsv"), "w") as f:
                f.write("onset\tduration\tHED\tcat\n" + "".join(f"{o}\tn/a\t{h}\t{c}\n" for o, h, c in rows))
        for warn in (True, False):
            issues = BidsDataset(root, schema=schema).validate(check_for_warnings=warn)
            case = {"entry": "dataset", "warnings": warn}
            ctx.case(("dataset", warn), nontrivial=len(issues) >= 2)
            ctx.count("order:dataset-issues", len(issues))
            check_order(ctx, issues, case, per_file=True)
    finally:
        shutil.rmtree(root, ignore_errors=True)


ROW_GATE = [  # a row whose LAST looked-at cell reports only a warning and whose row-level checks report an error
    {"mode": "sheet", "onsets": None, "cols": [["Item/Xyz, Red, Red", "Red"]], "sidecar": None},
    {"mode": "sheet", "onsets": None, "cols": [["Red", "Blue"], ["Item/Xyz, Red", "Item/Abc, (Onset, Red)"]], "sidecar": None},
    {"mode": "tabular", "onsets": None, "cols": [["Item/Xyz, (Blue, Blue)", "Green"]], "sidecar": None},
]


def loc_view(i):
    return [i["code"], int(i["severity"]),
            [i["char_index"], i["char_index_end"]] if "char_index_end" in i else None]


def string_obs(su, text, ph, w):
    from hed import HedString
    from hed.errors.error_reporter import ErrorHandler
    from hed.errors.error_types import ErrorContext
    hs = HedString(text, su.real.schema, su.real.dd)
    eh = ErrorHandler(check_for_warnings=w)
    eh.push_error_context(ErrorContext.HED_STRING, hs)
    try:
        return [loc_view(i) for i in hs.validate(allow_placeholders=ph, error_handler=eh)]
    except IndexError:
        return None


def check_closed_string(ctx, su, text, ph, m):
    case = {"entry": "closed-string", "text": text, "ph": ph}
    ctx.count("closed-string:cases")
    if "unmodelled" in m or "raises" in m:
        ctx.count("closed-string:skipped-" + ("unmodelled" if "unmodelled" in m else "raises"))
        return
    on, off = string_obs(su, text, ph, True), string_obs(su, text, ph, False)
    if on is None or off is None:
        ctx.count("closed-string:impl-raised")
        return
    ctx.case(("cs", text, ph), nontrivial=any(x[2] for x in on))
    if off != [x for x in on if x[1] == 1]:
        ctx.violation("errors-only-not-the-error-subset", case, {"off": off, "on": on})
    for name, impl in (("on", on), ("off", off)):
        mine = [[c, s, ch] for c, s, sp, ch in m[name]]
        if sorted(mine, key=json.dumps) != sorted(impl, key=json.dumps):
            ctx.disagree(f"Flow.located (warnings {name}) = HedString.validate under a handler: code, severity, char offsets",
                         case, [x for x in mine if x not in impl][:6], [x for x in impl if x not in mine][:6])
    if any(x[1] == 10 for x in on) and any(x[1] == 1 for x in on):
        ctx.count("closed-string:warning-and-error")


def table_obs(su, spec, w):
    from hed.errors.error_reporter import ErrorHandler
    data = su.real.build(spec)
    try:
        issues = data.validate(su.real.schema, extra_def_dicts=su.real.dd, error_handler=ErrorHandler(check_for_warnings=w))
    except Exception as e:
        return {"exc": type(e).__name__}
    return {"issues": [[i["code"] + ":" + str(i.get("_kind")), i["severity"], i.get("ec_row"),
                        None if i.get("ec_column") is None else str(i.get("ec_column"))] for i in issues], "raw": issues}


def check_closed_table(ctx, su, spec, rq, m):
    from harness.props import c07
    case = {"entry": "closed-table", "spec": spec}
    ctx.count("closed-table:tables")
    if "unmodelled" in m:
        ctx.count("closed-table:skipped-unmodelled")
        return
    obs = {True: table_obs(su, spec, True), False: table_obs(su, spec, False)}
    ctx.case(("ct", json.dumps(spec, sort_keys=True)), nontrivial=bool(obs[True].get("issues")))
    if "exc" in obs[True] or "exc" in obs[False]:
        if obs[True].get("exc") != obs[False].get("exc"):
            ctx.violation("errors-only-raises-differently", case, {"on": obs[True].get("exc"), "off": obs[False].get("exc")})
    else:
        # the property: same list minus the warnings, in the same (sorted) order
        if obs[False]["issues"] != [i for i in obs[True]["issues"] if i[1] == 1]:
            ctx.violation("errors-only-not-the-error-subset", case,
                          {"off": obs[False]["issues"][:8], "on-errors": [i for i in obs[True]["issues"] if i[1] == 1][:8]})
        if any(i[1] == 10 for i in obs[True]["issues"]):
            ctx.count("closed-table:with-warning")
    for w, name in ((True, "on"), (False, "off")):
        mm, oo = m[name], obs[w]
        if "exc" in mm or "exc" in oo:
            if mm.get("exc") != oo.get("exc"):
                ctx.disagree(f"Flow.Tab.validateClosedW (warnings {name}) = validate (exception)", case, mm.get("exc", "issues"),
                             oo.get("exc", "issues"))
            continue
        check_order(ctx, oo["raw"], dict(case, warnings=w))
        if "delay/" in json.dumps(spec).casefold():
            # Delay-shifted groups create equal effective times; which row heads a merged time point (and therefore the
            # label of its issues) is decided by pandas' unstable sort / is the registered finding C07-merged-row-label.
            # The closed C07 check compares such tables modulo those classes (Closed.skipReason, timeParts); here the
            # property clauses (error subset, order of the list as returned) have been checked on the implementation
            # above, and the label-exact comparison with the model is left to C07.
            ctx.count(f"closed-table:{name}-delay-table-model-comparison-left-to-C07")
            continue
        # the model's list ends with `sortIssues`: same runs of equal (row, column) in the same order, same items per run
        if run_groups([i[:4] for i in mm["issues"]]) != run_groups(oo["issues"]):
            ctx.disagree(f"Flow.Tab.validateClosedW (warnings {name}) = validate: ORDER of the returned list", case,
                         [g[0] for g in run_groups([i[:4] for i in mm["issues"]])][:12], [g[0] for g in run_groups(oo["issues"])][:12])
        mine = c07.canon_obs([i[:4] for i in mm["issues"]], [], rq["rowAdj"], rq["hasOnset"])
        impl = c07.canon_obs(oo["issues"], [], rq["rowAdj"], rq["hasOnset"])
        if any(i[4] == "row" for i in mm["issues"]):
            ctx.count(f"closed-table:{name}-with-row-level-issue")
        if mine != impl:
            ctx.disagree(f"Flow.Tab.validateClosedW (warnings {name}) = validate (kind, severity, ec_row, ec_column list)", case,
                         [x for x in mine if x not in impl][:6], [x for x in impl if x not in mine][:6])


def sidecar_obs(doc, schema, dd, w):
    import io
    from hed import Sidecar
    from hed.errors.error_reporter import ErrorHandler
    from harness.props import c08
    try:
        issues = Sidecar(io.StringIO(json.dumps(doc))).validate(schema, extra_def_dicts=dd,
                                                                error_handler=ErrorHandler(check_for_warnings=w))
    except Exception as e:
        return {"raise": type(e).__name__}, None
    RAW_SIDECAR[w] = issues
    return {"ok": c08.strip_kind([c08.canon_issue(i) for i in issues])}, [c08.canon_issue(i) for i in issues]


RAW_SIDECAR = {}


def check_closed_sidecar(ctx, su, doc, m):
    from harness.props import c08
    case = {"entry": "closed-sidecar", "doc": doc}
    ctx.count("closed-sidecar:docs")
    if "unmodelled" in m:
        ctx.count("closed-sidecar:skipped-unmodelled")
        return
    obs = {}
    for w in (True, False):
        RAW_SIDECAR.pop(w, None)
        obs[w] = sidecar_obs(doc, su.real.schema, su.real.dd, w)
        # `SidecarValidator.validate` sorts on its normal path only; the early return on structure / reference errors hands
        # back the lists as produced (which path was taken: the model's `early`, C08's correspondence)
        if w in RAW_SIDECAR and not m.get("early", True):
            check_order(ctx, RAW_SIDECAR[w], dict(case, warnings=w))
        elif w in RAW_SIDECAR:
            ctx.count("order:sidecar-early-exit-not-sorted-by-design")
    ctx.case(("sc", json.dumps(doc)), nontrivial=bool(doc))
    if obs[True][1] is not None and obs[False][1] is not None:
        if obs[False][1] != [i for i in obs[True][1] if i[2] == 1]:
            ctx.violation("errors-only-not-the-error-subset", case, {"off": obs[False][1][:8], "on": obs[True][1][:8]})
        if any(i[2] == 10 for i in obs[True][1]):
            ctx.count("closed-sidecar:with-warning")
    elif obs[True][0].get("raise") != obs[False][0].get("raise"):
        ctx.violation("errors-only-raises-differently", case, {"on": obs[True][0], "off": obs[False][0]})
    for w, name in ((True, "on"), (False, "off")):
        mm, oo = m[name], obs[w][0]
        if "unmodelled" in mm:
            continue
        if "raise" in mm or "raise" in oo:
            if mm.get("raise") != oo.get("raise"):
                ctx.disagree(f"Flow.Sc.validateClosedW (warnings {name}) = Sidecar.validate (exception)", case,
                             mm.get("raise", "issues"), oo.get("raise", "issues"))
            continue
        mine = sorted(mm["ok"], key=c08.obs_key)
        if mine != oo["ok"]:
            ctx.disagree(f"Flow.Sc.validateClosedW (warnings {name}) = Sidecar.validate (kind, code, severity, column, key list)",
                         case, [x for x in mine if x not in oo["ok"]][:6], [x for x in oo["ok"] if x not in mine][:6])


def closed_setup(ctx):
    from harness.props import closed_c07, c08
    su = closed_c07.Setup(ctx)
    c08.install_recorders()
    c08.tables()
    return su


def closed_strings(ctx, su, n):
    g, rng = su.gen, ctx.rng
    fixed = ["Item/Xyz, Red, Red", "Item/Xyz$", "Def/C/x$1", "Def/C/3", "red, (Item/Abc, Blue)", "Item/Xy, Greenish",
             "Label/a$b, Item/Q1", "(Item/Xyz, (Red, Red))", "Red/", "Item/Xyz, (Red", "Item/Abc, Def/Zed"]
    out = [(t, False) for t in fixed]
    for t in gen_strings(ctx, n // 3):
        if "Delay" not in t and all(ord(c) < 128 for c in t):
            out.append((t, rng.random() < 0.3))
    for _ in range(n - n // 3):
        ph = rng.random() < 0.25
        tree = g.conforming(ph)
        x = rng.random()
        try:
            from harness.props import c01
            t = g.inject(rng.choice(list(c01.SPEC)), tree, ph) if x < 0.45 else g.render(tree)
        except Exception:
            t = None
        if t and len(t) <= 120:
            if rng.random() < 0.5:       # an extension (warning) next to whatever the text holds
                t = "Item/Ext" + str(rng.randint(1, 99)) + ", " + t
            out.append((t, ph))
    return out


def run_closed(ctx):
    from harness.props import closed_c07, closed_c08, c08
    su = closed_setup(ctx)
    quick = ctx.quick()
    # strings
    cases = closed_strings(ctx, su, 900 if quick else 9000)
    for lo in range(0, len(cases), 2000):
        part = cases[lo:lo + 2000]
        a = ctx.model.batch([dict(su.env([t for t, _ in part]), op="c12.string", cases=[{"text": t, "ph": ph} for t, ph in part])])[0]
        if "bad-op" in a:
            raise RuntimeError("driver: " + str(a["bad-op"]))
        for (t, ph), m in zip(part, a["answers"]):
            check_closed_string(ctx, su, t, ph, m)
        ctx.check_time()
    # tables
    specs = list(ROW_GATE) + list(ORDER_TABLES) + list(closed_c07.WITNESS)
    specs += [gen_order_table(ctx.rng) for _ in range(40 if quick else 600)]
    for _ in range(170 if quick else 2500):
        sp = closed_c07.gen_table(ctx.rng, su.gen, su.variant)
        if ctx.rng.random() < 0.35:      # put an extension warning into the last HED-bearing column of some rows
            col = sp["cols"][0] if sp["mode"] == "sidecar" else sp["cols"][-1]
            for r in range(len(col)):
                if col[r] not in ("", "n/a") and ctx.rng.random() < 0.5 and len(col[r]) < 80:
                    col[r] = col[r] + ", Item/Ext" + str(ctx.rng.randint(1, 99))
        specs.append(sp)
    reqs = [su.real.request(sp, su.variant) for sp in specs]
    for lo in range(0, len(reqs), 400):
        texts = [x for rq in reqs[lo:lo + 400] for r in rq["rows"] for x in r["cells"]]
        a = ctx.model.batch([dict(su.env(texts), op="c12.file", tables=reqs[lo:lo + 400])])[0]
        if "bad-op" in a:
            raise RuntimeError("driver: " + str(a["bad-op"]))
        for sp, rq, m in zip(specs[lo:lo + 400], reqs[lo:lo + 400], a["answers"]):
            check_closed_table(ctx, su, sp, rq, m)
        ctx.check_time()
    # sidecars
    docs = list(closed_c08.WITNESS) + [{"a": {"HED": {"go": "Item/Xyz, Red, Red", "stop": "Item/Abc"}}, "b": {"HED": "Label/#, Item/Q"}}]
    docs += [closed_c08.gen_doc(ctx.rng, su.gen) for _ in range(130 if quick else 2500)]
    for d in docs[4:]:
        if ctx.rng.random() < 0.3:
            for col in d.values():
                h = col.get("HED") if isinstance(col, dict) else None
                if isinstance(h, dict):
                    for k in h:
                        if ctx.rng.random() < 0.5:
                            h[k] = h[k] + ", Item/Ext" + str(ctx.rng.randint(1, 99))
    for lo in range(0, len(docs), 500):
        part = docs[lo:lo + 500]
        chars = sorted({c for d in part for c in json.dumps(d, ensure_ascii=False) if ord(c) > 127})
        env = dict(su.v.payload(chars), **__import__("harness.props.c01", fromlist=["x"]).detect_variant(), ns="")
        a = ctx.model.batch([dict(env, op="c12.sidecar", docs=[{"doc": c08.enc(d), "fixed": True} for d in part])])[0]
        if "bad-op" in a:
            raise RuntimeError("driver: " + str(a["bad-op"]))
        for d, m in zip(part, a["answers"]):
            check_closed_sidecar(ctx, su, d, m)
        ctx.check_time()
    su.real.cleanup()


CASEFOLD_WITNESS = ["ß-band", "ﬁx/Red", "Event/ßß/Red"]
# characters whose casefold is longer than one character, and length-preserving non-ASCII controls
FOLD_LONG = ["ß", "ﬁ", "ﬀ", "ΐ", "ǰ", "İ", "ŉ"]
FOLD_SAME = ["é", "Σ"]


def casefold_witnesses(ctx, schema):
    """deterministic family of finding C12-casefold-length-offsets, on every seed: three strings, a table cell, a sidecar
    entry; judged by the ordinary offset / fragment oracle of `check_issue`"""
    import io
    from hed import HedString, Sidecar
    from hed.errors.error_reporter import ErrorHandler
    from hed.errors.error_types import ErrorContext
    for s in CASEFOLD_WITNESS:
        where = {"entry": "string", "text": s}
        hs = HedString(s, schema)
        eh = ErrorHandler()
        eh.push_error_context(ErrorContext.HED_STRING, hs)
        for i in hs.validate(error_handler=eh):
            check_issue(ctx, i, where, 2)
        ctx.case(("casefold", s), nontrivial=True)
    where = {"entry": "table", "cells": ["Red", "Blue, ß-band", "Event/ßß/Red"], "cats": ["a", "a", "a"], "onset": False}
    for i in old_table(where, schema, True):
        check_issue(ctx, i, where, 1)
    ctx.case(("casefold", "table"), nontrivial=True)
    doc = {"c": {"HED": {"k": "Event/ßß/Red", "m": "ﬁx/Red"}}}
    where = {"entry": "sidecar-doc", "doc": doc}
    for i in Sidecar(io.StringIO(json.dumps(doc))).validate(schema, error_handler=ErrorHandler()):
        check_issue(ctx, i, where, 1)
    ctx.case(("casefold", "sidecar"), nontrivial=True)


def gen_fold_strings(ctx, n):
    """tags with a character of `FOLD_LONG` / `FOLD_SAME` in an unknown first term, in an extension before a misplaced known
    term, after it, or in a value — mixed with ordinary fragments"""
    rng = ctx.rng
    shapes = ["{c}-band", "{c}x/Red", "Event/{c}{c}/Red", "Item/{c}/Sensory-event", "Item/x{c}/Blue/Qq", "Red/{c}x", "Item/Red/{c}",
              "Label/{c}", "xx:{c}q", "Item/{c}x", "Zork{c}/Red", "Event/Q/{c}/Green", "Item/Aa/Red/{c}"]
    plain = ["Red", "Blue", "(Green, Item/Object)", "Zork", "Label/abc", "Item/Ext"]
    out = []
    for _ in range(n):
        c = rng.choice(FOLD_LONG) if rng.random() < 0.65 else rng.choice(FOLD_SAME)
        parts = [rng.choice(shapes).format(c=c)]
        for _ in range(rng.randint(0, 2)):
            parts.insert(rng.randint(0, len(parts)), rng.choice(plain))
        t = ", ".join(parts)
        if rng.random() < 0.2:
            t = "(" + t + ")"
        out.append(t)
    return out


SIDECAR_CAT = {"HED": {"a": "Red, Zork", "b": "(Blue, Blue)", "c": "Green/Ext"}}


def old_table(where, schema, warn):
    import io
    import pandas as pd
    from hed import Sidecar, TabularInput
    from hed.errors.error_reporter import ErrorHandler
    rows = len(where["cells"])
    df = pd.DataFrame({"onset": [str(1.0 + k) for k in range(rows)], "duration": ["n/a"] * rows, "HED": where["cells"],
                       "cat": where["cats"]})
    if not where["onset"]:
        df = df.drop(columns=["onset", "duration"])
    return TabularInput(df, sidecar=Sidecar(io.StringIO(json.dumps({"cat": SIDECAR_CAT}))), name="t.tsv").validate(
        schema, error_handler=ErrorHandler(check_for_warnings=warn))


def run(ctx):
    import io
    import pandas as pd
    from hed import HedString, load_schema_version, Sidecar, TabularInput
    from hed.errors.error_reporter import ErrorHandler, sort_issues, replace_tag_references
    from hed.errors.error_types import ErrorContext
    schema = load_schema_version("8.3.0")
    ctx.extra["rule"] = ("issues produced by string / sidecar / table validation of generated inputs, warnings on and off, with and "
                         "without a caller-supplied handler holding a HED_STRING context, decorated once more; non-trivial = an "
                         "issue carrying character offsets")
    from harness.props.c10 import install_kind_recorder
    install_kind_recorder()
    load_sort_names(ctx)
    check_dataset_order(ctx, schema)
    reqs, expect = [], []
    casefold_witnesses(ctx, schema)
    strings = ["Red/xyz, Blue", "Duration/3 Seconds", ")("] + gen_strings(ctx, 2500 if ctx.quick() else 40000)
    strings += ["é-band", "Σx/Red", "Event/éé/Red"] + gen_fold_strings(ctx, 400 if ctx.quick() else 6000)
    all_issues = []
    for s in strings:
        where = {"entry": "string", "text": s}
        try:
            hs = HedString(s, schema)
            plain = hs.validate()
            eh = ErrorHandler(check_for_warnings=True)
            eh.push_error_context(ErrorContext.HED_STRING, hs)
            withctx = HedString(s, schema)
            eh2 = ErrorHandler(check_for_warnings=True)
            eh2.push_error_context(ErrorContext.HED_STRING, withctx)
            full = withctx.validate(error_handler=eh2)
            eh3 = ErrorHandler(check_for_warnings=False)
            hs3 = HedString(s, schema)
            eh3.push_error_context(ErrorContext.HED_STRING, hs3)
            errs_only = hs3.validate(error_handler=eh3)
        except IndexError:
            ctx.count("validate-raised-IndexError(C04 finding)")
            continue
        except Exception as e:
            ctx.violation("validation-raised", where, f"{type(e).__name__}: {e}")
            continue
        ctx.case(s, nontrivial=any("char_index" in i for i in full), sample=where if len(ctx.samples) < 4 and full else None)
        if [key_view(i) for i in errs_only] != [key_view(i) for i in full if i["severity"] == 1]:
            ctx.violation("errors-only-not-the-error-subset", where,
                          {"off": [key_view(i)[:4] for i in errs_only], "on": [key_view(i)[:4] for i in full]})
        for i in full:
            ctx.count("code:" + i["code"])
            r = check_issue(ctx, i, where, 2)
            if r:
                reqs.append(r[0]); expect.append((where, r[1], r[2], i["code"]))
        # a third pass through decoration must change nothing observable
        before = [(i.get("char_index"), i["message"]) for i in full]
        eh2.add_context_and_filter(full)
        if before != [(i.get("char_index"), i["message"]) for i in full]:
            ctx.violation("decoration-not-idempotent", where, {"code": [i["code"] for i in full]})
        for i in plain:
            check_issue(ctx, i, where, 1)
        all_issues.append(full)
        if len(all_issues) % 500 == 0:
            ctx.check_time()
    # values of Def tags are checked inside the definition's placeholder tag (known finding C12-def-value-char-index)
    from hed.models import DefinitionDict
    dd = DefinitionDict("(Definition/P/#, (Label/aaaaaaaaaaaaaaaaaaaaaaaa#)), (Definition/C/#, (Label/#)), (Definition/Q, (Red))", schema)
    for s in ["Def/P/x$", "Def/C/x$1", "Def/C/ok", "(Def/Q, Blue), Def/C/a$b, Green", "Def/C/{x}"]:
        where = {"entry": "string+defs", "text": s}
        hs = HedString(s, schema, dd)
        eh = ErrorHandler(check_for_warnings=True)
        eh.push_error_context(ErrorContext.HED_STRING, hs)
        for i in hs.validate(error_handler=eh):
            ctx.count("defs-code:" + i["code"])
            check_issue(ctx, i, where, 2)
        ctx.case(("defs", s), nontrivial=True)
    # sidecars and tables
    sidecar = {"cat": {"HED": {"a": "Red, Zork", "b": "(Blue, Blue)", "c": "Green/Ext"}}, "val": {"HED": "Age/#, Label/#"},
               "bad": {"HED": {"x": "Label/# "}}, "ref": {"HED": {"q": "{cat}, Red"}}}
    sc = Sidecar(io.StringIO(json.dumps(sidecar)))
    for warn in (True, False):
        iss = sc.validate(schema, error_handler=ErrorHandler(check_for_warnings=warn))
        where = {"entry": "sidecar", "warnings": warn}
        check_order(ctx, iss, where)
        for i in iss:
            check_issue(ctx, i, where, 1)
        if warn:
            sc_all = iss
        else:
            if [key_view(i) for i in iss] != [key_view(i) for i in sc_all if i["severity"] == 1]:
                ctx.violation("errors-only-not-the-error-subset", where, {"off": len(iss), "on": len(sc_all)})
    all_issues.append(sc_all)
    ntab = 60 if ctx.quick() else 600
    for t in range(ntab):
        rows = ctx.rng.randint(1, 6)
        cells = gen_strings(ctx, rows)
        cats = [ctx.rng.choice(["a", "b", "c", "n/a", "zz"]) for _ in range(rows)]
        # odd t: no onset column — rows are validated as strings combined from their cells (span remapping)
        where = {"entry": "table", "cells": cells, "cats": cats, "onset": not t % 2}
        try:
            on = old_table(where, schema, True)
            off = old_table(where, schema, False)
        except IndexError:
            ctx.count("validate-raised-IndexError(C04 finding)")
            continue
        except Exception as e:
            ctx.count(f"table-validate-raised-{type(e).__name__}(C07)")
            continue
        ctx.case(("t", tuple(cells)), nontrivial=bool(on))
        check_order(ctx, on, dict(where, warnings=True))
        check_order(ctx, off, dict(where, warnings=False))
        if sorted(map(key_view, off), key=repr) != sorted((key_view(i) for i in on if i["severity"] == 1), key=repr):
            ctx.violation("errors-only-not-the-error-subset", where, {"off": len(off), "on": len(on)})
        for i in on:
            r = check_issue(ctx, i, where, 1)
            if r:
                reqs.append(r[0]); expect.append((where, r[1], r[2], i["code"]))
        all_issues.append(on)
    # model: decoration
    ans = ctx.model.batch(reqs)
    for a, (where, ch, nsuf, code) in zip(ans, expect):
        if a["charIdx"] != ch or a["suffixes"] != nsuf:
            ctx.disagree("Issue.updateCharPos = _update_error_with_char_pos", {**where, "code": code}, a, {"charIdx": ch, "suffixes": nsuf})
    # sorting: real issue lists, shuffled, plus synthetic contexts
    sort_reqs, sort_expect = [], []
    names = [n for n, _ in ctx.model.batch([{"op": "c12.sortlist"}])[0]]
    for lst in all_issues[-200:] + [None] * (100 if ctx.quick() else 2000):
        if lst is None:
            lst = []
            for k in range(ctx.rng.randint(2, 9)):
                d = {"code": "X", "message": "m", "severity": 1}
                for n in names:
                    if ctx.rng.random() < 0.4:
                        d[n] = ctx.rng.randint(0, 4) if n == "ec_row" else \
                            (ctx.rng.choice([0, 2, 10, 3]) if n == "ec_column" and ctx.rng.random() < 0.5 else
                             ctx.rng.choice(["", "a", "b", "B", "ab", "é", "1", "10"]))
                lst.append(d)
        else:
            lst = [dict(i) for i in lst]
            ctx.rng.shuffle(lst)
        if len(lst) < 2:
            continue
        for k, d in enumerate(lst):
            d["_id"] = k
        try:
            srt = sort_issues(lst)
        except TypeError:
            ctx.count("sort-typeerror-mixed-context-types")
            continue
        ctx.evaluations += 1
        items = []
        for d in lst:
            c = {n: d[n] for n in names if n in d and isinstance(d[n], (str, int))}
            items.append({"id": d["_id"], "severity": d["severity"], "ctx": c})
        sort_reqs.append({"op": "c12.sort", "issues": items})
        sort_expect.append([d["_id"] for d in srt])
        # direct oracle: permutation + stable + ordered by the spec keys
        keyf = lambda d: tuple(d.get(n, -1) if n == "ec_row" else str(d.get(n, "")) for n in names)
        if sorted(d["_id"] for d in srt) != list(range(len(lst))):
            ctx.violation("sort-not-a-permutation", {"n": len(lst)}, None)
        # the property's own order (hand-written, not taken from the source): file, sidecar column, sidecar key, row
        spec = lambda d: (d.get("ec_filename", ""), d.get("ec_sidecarColumnName", ""), d.get("ec_sidecarKeyName", ""),
                          d.get("ec_row", -1))
        if all("ec_title" not in d for d in srt):
            for a, b in zip(srt, srt[1:]):
                if spec(b) < spec(a):
                    ctx.violation("sort-not-by-file-sidecar-column-key-row", {"a": list(map(str, spec(a))), "b": list(map(str, spec(b)))}, None)
        for a, b in zip(srt, srt[1:]):
            if keyf(b) < keyf(a) or (keyf(a) == keyf(b) and a["_id"] > b["_id"]):
                ctx.violation("sort-not-ordered-or-not-stable", {"keys": [list(map(str, keyf(a))), list(map(str, keyf(b)))]}, None)
    for a, e, r in zip(ctx.model.batch(sort_reqs), sort_expect, sort_reqs):
        if a["order"] != e:
            ctx.disagree("Issue.sortBy = sort_issues", {"issues": r["issues"]}, a["order"], e)
    ctx.count("sort-cases", len(sort_reqs))
    # export
    for lst in all_issues[:300]:
        cp = copy.copy([dict(i) for i in lst])
        codes = [i["code"] for i in cp]
        replace_tag_references(cp)
        try:
            json.dumps(cp)
        except Exception as e:
            ctx.violation("export-not-json-serialisable", {"codes": codes}, f"{type(e).__name__}: {e}")
        if [i["code"] for i in cp] != codes:
            ctx.violation("export-changed-codes", {"codes": codes}, None)
    # growth round: context stack histories, printable grouping, composition with the C01 / C07 / C08 models
    run_stack(ctx)
    run_print(ctx, schema)
    run_closed(ctx)
    ctx.extra["rule"] += ("; + random push/pop/reset/format histories on the real ErrorHandler (type-exact contexts); + issue lists "
                          "with random contexts printed by get_printable_issue_string; + strings / tables / sidecars of the closed "
                          "C01/C07/C08 generators validated with warnings on and off against Flow.located / Flow.Tab / Flow.Sc; "
                          "+ ORDER: every list returned by a table / sidecar / dataset entry point is checked, as returned, against our "
                          "own key built from the generated sort list, on tables mixing structure, unordered-onset, per-row and temporal "
                          "issues (temporal on the earlier row), and against the order of the closed file model")


def replay(ctx, rec):
    from hed import HedString, load_schema_version
    from hed.errors.error_reporter import ErrorHandler
    from hed.errors.error_types import ErrorContext
    case = rec.get("case") or (rec.get("disagreements") or [{}])[0].get("case")
    entry = (case or {}).get("entry")
    from harness.props.c10 import install_kind_recorder
    install_kind_recorder()
    load_sort_names(ctx)
    if entry == "sidecar-doc":
        import io
        from hed import Sidecar
        for i in Sidecar(io.StringIO(json.dumps(case["doc"]))).validate(load_schema_version("8.3.0"), error_handler=ErrorHandler()):
            print(i["code"], i.get("char_index"), i.get("char_index_end"))
            check_issue(ctx, i, case, 1)
        return
    if entry == "dataset":
        check_dataset_order(ctx, load_schema_version("8.3.0"))
        return
    if entry == "history":
        ops = case["ops"]
        a = ctx.model.batch([{"op": "c12.ctx", "w": case["w"], "ops": ops}])[0]
        raised, out, stack = run_history_real(ops, case["w"])
        print("impl :", raised, [(k, s) for k, _, s in out], stack)
        print("spec :", expect_history(ops, case["w"]))
        print("model:", a)
        check_history(ctx, ops, case["w"], a)
        return
    if entry == "print":
        schema = load_schema_version("8.3.0")
        pc = {"skip": case["skip"], "severity": case["severity"],
              "issues": [{k: (HedString(v["ref"], schema) if isinstance(v, dict) else v) for k, v in d.items()} for d in case["issues"]]}
        a = ctx.model.batch([print_request(pc)])[0]
        from hed.errors.error_reporter import get_printable_issue_string
        print(get_printable_issue_string(pc["issues"], severity=pc["severity"], skip_filename=pc["skip"], add_link=False))
        print("model:", a)
        check_print(ctx, pc, a)
        return
    if entry in ("closed-string", "closed-table", "closed-sidecar"):
        from harness.props import c08, c01
        su = closed_setup(ctx)
        if entry == "closed-string":
            a = ctx.model.batch([dict(su.env([case["text"]]), op="c12.string", cases=[{"text": case["text"], "ph": case["ph"]}])])[0]
            m = a["answers"][0]
            print("impl on :", string_obs(su, case["text"], case["ph"], True))
            print("impl off:", string_obs(su, case["text"], case["ph"], False))
            print("model   :", m)
            check_closed_string(ctx, su, case["text"], case["ph"], m)
        elif entry == "closed-table":
            rq = su.real.request(case["spec"], su.variant)
            a = ctx.model.batch([dict(su.env([x for r in rq["rows"] for x in r["cells"]]), op="c12.file", tables=[rq])])[0]
            m = a["answers"][0]
            print("impl on :", table_obs(su, case["spec"], True)["issues"] if "issues" in table_obs(su, case["spec"], True) else "exc")
            print("impl off:", table_obs(su, case["spec"], False).get("issues", "exc"))
            print("model   :", m)
            check_closed_table(ctx, su, case["spec"], rq, m)
        else:
            d = case["doc"]
            chars = sorted({c for c in json.dumps(d, ensure_ascii=False) if ord(c) > 127})
            env = dict(su.v.payload(chars), **c01.detect_variant(), ns="")
            m = ctx.model.batch([dict(env, op="c12.sidecar", docs=[{"doc": c08.enc(d), "fixed": True}])])[0]["answers"][0]
            for w in (True, False):
                print("impl", w, sidecar_obs(d, su.real.schema, su.real.dd, w)[0])
            print("model   :", m)
            check_closed_sidecar(ctx, su, d, m)
        su.real.cleanup()
        return
    if entry == "table" and "cats" in case:
        schema = load_schema_version("8.3.0")
        on, off = old_table(case, schema, True), old_table(case, schema, False)
        print("warnings on :", [key_view(i)[:6] for i in on])
        print("warnings off:", [key_view(i)[:6] for i in off])
        check_order(ctx, on, dict(case, warnings=True))
        check_order(ctx, off, dict(case, warnings=False))
        if sorted(map(key_view, off), key=repr) != sorted((key_view(i) for i in on if i["severity"] == 1), key=repr):
            ctx.violation("errors-only-not-the-error-subset", case, {"off": len(off), "on": len(on)})
        for i in on:
            check_issue(ctx, i, case, 1)
        return
    if not case or "text" not in case:
        print("nothing to replay:", json.dumps(rec)[:300])
        return
    schema = load_schema_version("8.3.0")
    hs = HedString(case["text"], schema)
    eh = ErrorHandler()
    eh.push_error_context(ErrorContext.HED_STRING, hs)
    for i in hs.validate(error_handler=eh):
        print(i["code"], i.get("char_index"), i.get("char_index_end"), i["message"].count("Problem spans"))
        check_issue(ctx, i, case, 2)
