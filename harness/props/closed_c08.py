"""C08, closed mode — the whole pipeline sidecar -> issues inside Lean.

`closed.c08` (lean/HedVerif/Driver/Closed.lean) runs `SidecarV.validateClosed`: the sidecar model of C08 with its string-level
oracle instantiated by the string-validator model of C01 (`Validate`): the basic checks of every entry (placeholders
allowed, `{ref}` tags removed from the tree as `remove_refs` does), the full checks of every string assembled from the
referenced columns' entries, and the count of `Definition` tags.  The request carries the schema environment (our own XML
reading), the definition dictionary and the JSON documents; nothing is recorded from the real validator.  Compared with the
real `Sidecar.validate(schema, extra_def_dicts)`: exception class, or the complete sorted
(kind, code, severity, sidecar column, key) list.  Sidecars that declare definitions go through `SidecarV.validateClosedD` (C09's definition model on the entries' trees, the
accepted definitions joined to the dictionary).  Outside the closed fragment (answered `unmodelled`, skipped and counted):
unsupported value-class patterns, assembled strings on
which the real validator raises.
"""
import io
import json

from harness.props import c01, c08

BUDGET_S = 30
PLAIN = ["Red", "Blue", "Green", "Square", "(Red, Blue)", "(Green, Square)", "Red, Square", "Item/Myext", "Def/A", "(Def/B, Green)",
         "Def/C/3", "(Def-expand/A, (Red))", "(Duration/3 s, (Circle))", "Age/5 years", "Item-count/3", "Label/x1"]
BAD = ["Greenish", "Red/Blue", "Weight/3 foo", "Red, Red", "(Red", "Red,, Blue", "Def/Zed", "Def/C", "Def/A/1", "Onset",
       "(Def/A, Onset, (Blue), (Green))", "(Onset, Red)", "(Duration/3 s, Red, (Blue))", "Label/a b", "Re~d", "Event",
       "(Def-expand/A, (Blue))", "(Red, Blue), (Blue, Red)", "Item-count/abc", "Label/#"]
VALUE = ["Label/#", "Item-count/#", "(Duration/# s, (White))", "Age/# years", "Label/#, Red", "(Label/#, Blue)", "Def/C/#",
         "ID/#"]
BAD_VALUE = ["Label/#, ID/#", "Greenish/#", "Red", "Age/# foo", "(Label/#", "Red/#", "Def/A/#", "Label/#, Red, Red"]
OWN = ["Circle", "Triangle", "(Circle, Triangle)", "Ellipse", "Cross"]
IGNORED = [{"Levels": {"1": "one", "2": "two"}}, {"Description": "free text"}, {}]
NAMES = ["a", "b", "c", "d", "e_1"]
FORMS = ["{%(t)s}, %(s)s", "(%(s)s, {%(t)s})", "%(s)s, ({%(t)s}, Cross)", "%(s)s, ({%(t)s})", "{%(t)s}", "%(s)s,{%(t)s}"]
BAD_FORMS = ["{%(t)s, %(s)s", "%(s)s, {nocol}", "%(s)s}", "{%(t)s}/%(s)s"]


def entry(rng, g):
    x = rng.random()
    if x < 0.45:
        return rng.choice(PLAIN)
    if x < 0.65:
        for _ in range(6):
            t = g.render(g.conforming(rng.random() < 0.2))
            if len(t) <= 90:
                return t
        return rng.choice(PLAIN)
    if x < 0.85:
        return rng.choice(BAD)
    return rng.choice(PLAIN) + ", " + rng.choice(PLAIN)


DEF_USERS = ["Def/Abc", "Def/Abc, Blue", "Def/Xyz/3", "Def/Xyz", "Def/Abc/3", "(Def-expand/Abc, (Red))", "(Def-expand/Abc, (Blue))",
             "(Def-expand/Xyz/3, (Label/3))", "Def/Val/4", "(Def/Two, Onset)", "Def/Solo", "Def/Mk/3", "Def/Mk", "Def/abc",
             "Def/Nope", "Def/A", "Def/C/2"]
DEF_MORE = ["(Definition/Mk/#, (Label/#))", "(Definition/A, (Green))", "(Definition/c/#, (Label/#))",      # A, C: external names
            "(Definition/Abc, (Red)), Red", "(Definition/Un/#, (Distance/# m))"]


def def_entry(rng):
    x = rng.random()
    if x < 0.5:
        return rng.choice(c08.DEF_OK + DEF_MORE)
    if x < 0.85:
        return rng.choice(c08.DEF_BAD)[0]
    return rng.choice(c08.DEF_ODD)


def gen_doc(rng, g, declare=False):
    """`declare`: sidecars that declare definitions are drawn at weight 0.35 (off by default: other checks reuse this
    generator for sidecars whose definition handling they do not model)"""
    doc = _gen_doc(rng, g)
    if declare and rng.random() < 0.35:           # a sidecar that declares definitions, used (rightly and wrongly) by other entries
        col = {"HED": {k: def_entry(rng) for k in rng.sample(["d1", "d2", "d3"], rng.randint(1, 3))}}
        if rng.random() < 0.2:
            col["HED"]["plain"] = "Blue"                  # definitions mixed with a plain entry: BAD_DEFINITION_LOCATION
        items = list(doc.items())
        items.insert(rng.randint(0, len(items)), ("defs", col))
        doc = dict(items)
        for n, e in doc.items():
            if n != "defs" and isinstance(e.get("HED"), dict):
                for k in list(e["HED"]):
                    if rng.random() < 0.4:
                        e["HED"][k] = rng.choice(DEF_USERS) if rng.random() < 0.7 else e["HED"][k] + ", " + rng.choice(DEF_USERS)
        if rng.random() < 0.15:
            doc["defs2"] = {"HED": {"d1": def_entry(rng)}}     # a second definition column: duplicates across columns
    return doc


def _gen_doc(rng, g):
    names = NAMES[:rng.randint(1, 5)]
    rng.shuffle(names)
    doc, bearing = {}, []
    for n in names:
        r = rng.random()
        if r < 0.15:
            doc[n] = json.loads(json.dumps(rng.choice(IGNORED)))
        elif r < 0.45:
            doc[n] = {"HED": rng.choice(VALUE) if rng.random() < 0.75 else rng.choice(BAD_VALUE)}
            bearing.append(n)
        else:
            ks = rng.sample(["go", "stop", "1", "left"], rng.randint(1, 3))
            doc[n] = {"HED": {k: entry(rng, g) for k in ks}}
            bearing.append(n)
    if len(bearing) >= 2 and rng.random() < 0.55:
        k = rng.randint(1, len(bearing) - 1)
        referrers = rng.sample(bearing, k)
        targets = [n for n in bearing if n not in referrers]
        for n in referrers:
            t = rng.choice(targets) if rng.random() < 0.93 else n
            if rng.random() < 0.15:
                t = "HED"                        # no HED column in a sidecar: the reference is spliced with "n/a"
            form = rng.choice(FORMS) if rng.random() < 0.9 else rng.choice(BAD_FORMS)
            h = doc[n]["HED"]
            if isinstance(h, str):
                doc[n]["HED"] = form % {"t": t, "s": rng.choice(["Age/#", "(Age/#, Circle)", "Label/#"])}
            else:
                for i, key in enumerate(h):
                    if i == 0 or rng.random() < 0.5:
                        h[key] = form % {"t": t, "s": rng.choice(OWN)}
        for t in targets:                        # an "n/a" entry in a referenced column: removed with its comma / parentheses
            if isinstance(doc[t]["HED"], dict) and rng.random() < 0.25:
                doc[t]["HED"][rng.choice(list(doc[t]["HED"]))] = "n/a"
        if rng.random() < 0.06 and targets:      # a reference inside a referenced column (nested)
            t = targets[0]
            if isinstance(doc[t]["HED"], dict):
                k0 = next(iter(doc[t]["HED"]))
                doc[t]["HED"][k0] += ", {%s}" % referrers[0]
    return doc


WITNESS = [
    {"a": {"HED": {"go": "Red, {b}", "stop": "(Blue, {b})"}}, "b": {"HED": {"x": "Red", "y": "(Def/A, Onset)"}}},
    {"a": {"HED": "Label/#, ({b})"}, "b": {"HED": {"x": "Greenish", "y": "Item-count/abc"}}},
    {"a": {"HED": {"go": "(Def/C, Green)", "stop": "Def/Zed"}}},
    {"a": {"HED": {"go": "Red, ({b}), Red", "stop": "({b}, (Blue, {b})), {HED}"}}, "b": {"HED": {"x": "n/a", "y": "Green"}}},
    {"a": {"HED": "(Label/#, {HED}), {b}"}, "b": {"HED": {"x": "n/a"}}},
    {"defs": {"HED": {"d1": "(Definition/Mk/#, (Label/#))"}}, "a": {"HED": {"go": "Def/Mk/3", "stop": "Def/Mk"}}},
    {"a": {"HED": {"go": "(Def/Two, Onset)", "stop": "Def/A, Def/Abc"}},
     "defs": {"HED": {"d1": "(Definition/Two, (Red, (Blue, Green)))", "d2": "(Definition/A, (Green))", "d3": "(Definition/P5/#, (Red/#))"}}},
]


def observe(doc, schema, dd):
    from hed import Sidecar
    try:
        issues = Sidecar(io.StringIO(json.dumps(doc))).validate(schema, extra_def_dicts=dd)
        return {"ok": c08.strip_kind([c08.canon_issue(i) for i in issues])}
    except Exception as e:
        return {"raise": type(e).__name__, "msg": str(e)[:120]}


def run_closed(ctx, docs=None):
    import time
    from hed import load_schema_version
    from hed.models import DefinitionDict
    from hed.schema.hed_schema_entry import pluralize
    t0 = time.time()
    c08.install_recorders()
    c08.tables()
    schema = load_schema_version("8.3.0")
    v = c01.Vocab("8.3.0", pluralize.plural)
    v.defs = c01.defs_for(v)
    dd = DefinitionDict(c01.defs_string(v.defs), schema)
    if dd.issues or len(dd.defs) != len(v.defs):
        raise RuntimeError(f"the harness's own definitions are not accepted: {dd.issues}")
    g = c01.Gen(ctx.rng, v, pluralize.plural)
    if docs is None:
        n = 800 if ctx.quick() else 8000
        docs = list(WITNESS) + [gen_doc(ctx.rng, g, declare=True) for _ in range(n)]
    chars = sorted({c for d in docs for c in json.dumps(d, ensure_ascii=False) if ord(c) > 127})
    env = dict(v.payload(chars), **c01.detect_variant(), ns="")
    ans = []
    for lo in range(0, len(docs), 1000):
        a = ctx.model.batch([dict(env, op="closed.c08", docs=[{"doc": c08.enc(d), "fixed": True} for d in docs[lo:lo + 1000]])])[0]
        if "bad-op" in a:
            raise RuntimeError("driver: " + str(a["bad-op"]))
        ans += a["answers"]
    for d, m in zip(docs, ans):
        case = {"closed": True, "doc": d}
        ctx.count("closed:docs")
        if "unmodelled" in m:
            ctx.count("closed:skipped-unmodelled:" + m["unmodelled"])
            continue
        out = observe(d, schema, dd)
        ctx.case(("closed", json.dumps(d)), nontrivial=len(d) > 0)
        if "raise" in out or "raise" in m:
            ctx.count("closed:compared-exception")
            if out.get("raise") != m.get("raise"):
                ctx.disagree("SidecarV.validateClosed = Sidecar.validate (exception)", case, m.get("raise", "issues"),
                             out.get("raise", "issues"))
            continue
        mine = sorted(m["ok"], key=c08.obs_key)
        refs = any("{" in x for x in c08._walk_strings(d))
        ctx.count("closed:compared" + ("-with-refs" if refs else ""))
        if any("definition/" in x.casefold() for x in c08._walk_strings(d)):
            ctx.count("closed:compared-declaring-definitions")
            ctx.count("closed:definitions-accepted", len(m.get("defs", [])))
        if refs and any(x == "n/a" or "{HED}" in x for x in c08._walk_strings(d)):
            ctx.count("closed:compared-with-n/a-splice")
        for i in mine:
            ctx.count("closed:issue-from-" + ("sidecar-layer" if i[0] else "string-layer"))
        if mine != out["ok"]:
            ctx.disagree("SidecarV.validateClosed = Sidecar.validate (complete kind, code, severity, column, key list)", case,
                         [x for x in mine if x not in out["ok"]][:6], [x for x in out["ok"] if x not in mine][:6])
        if time.time() - t0 > BUDGET_S and ctx.quick():
            ctx.count("closed:stopped-at-budget")
            break
    ctx.extra["closed_rule"] = ("closed mode: sidecars of 1-5 columns (ignored / value / categorical), entries from c01's conforming "
                                "generator on 8.3.0 (placeholders allowed), valid and faulty fragments, Def / Def-expand uses of the "
                                "declared definitions, references between columns in 6 well-formed and 4 malformed spellings; string "
                                "validation computed by Validate inside Lean")
    ctx.check_time()
