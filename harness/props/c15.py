"""C15 — Search queries obey their documented logic on every annotation.

Correspondence: `QueryHandler(q)` (compiles / ValueError) and `QueryHandler(q).search(HedString(s, schema))`
(truth value and the full list of results as (group identity, child identities)) against `Query.parse`,
`Query.eval`, `Query.isMatch` of lean/HedVerif/Model/Query.lean; `get_query_handlers` / `search_hed_objs`
against the same.  Direct oracle: every law of the property evaluated on the implementation's own answers
for generated (A, B, C, annotation): term modes, `||`, `&&` (implies both, commutative, associative, distinct
children), sibling-order invariance, repeated searches agree, the annotation is not altered, every rejection
is a ValueError and unbalanced grouping symbols are rejected (DESIGN.md section 7, C15; section 8 item 17).
"""
import json

THEOREMS = [
    "HedVerif.C15.term",
    "HedVerif.C15.term_quoted",
    "HedVerif.C15.term_prefix",
    "HedVerif.C15.or_iff",
    "HedVerif.C15.or_comm",
    "HedVerif.C15.or_assoc",
    "HedVerif.C15.and_imp",
    "HedVerif.C15.and_iff",
    "HedVerif.C15.and_comm",
    "HedVerif.C15.and_distinct",
    "HedVerif.C15.and_assoc",
    "HedVerif.C15.and_assoc_partial",
    "HedVerif.C15.legacy_assoc_counterexample",
    "HedVerif.C15.negation",
    "HedVerif.C15.descendant",
    "HedVerif.C15.exact_any",
    "HedVerif.C15.exact_none",
    "HedVerif.C15.exact_opt",
    "HedVerif.C15.exact_optional_equiv",
    "HedVerif.C15.exact_optional_counterexample",
    "HedVerif.C15.wildcard",
    "HedVerif.C15.sibling_order",
    "HedVerif.C15.sibling_order_partial",
    "HedVerif.C15.legacy_sibling_order_counterexample",
    "HedVerif.C15.pure",
    "HedVerif.C15.batch_eq_single",
    "HedVerif.C15.handlers_spec",
    "HedVerif.C15.parse_total",
    "HedVerif.C15.unbalanced_rejected",
    "HedVerif.C15.compiled_balanced",
    "HedVerif.C15.legacy_unbalanced_counterexample",
]
BUDGET = {"quick": 900, "thorough": 3600}

TAGS = ["Red", "Blue", "Green", "Event", "Sensory-event", "Event/Sensory-event", "Agent-action", "Action", "Item",
        "Object", "Clear-throat", "Label/x1", "Duration/3 s", "Def/Abc", "Def/Abc/3", "Xyzzy", "RED", "Item/Object",
        "Onset", "Def-expand/Abc", "Red/Foo", "A", "B"]
WORDS = ["red", "blue", "green", "event", "sensory-event", "agent-action", "action", "item", "object", "clear-throat",
         "color", "property", "label", "duration", "def", "xyzzy", "css-color", "onset", "Red", "EVENT", "a", "b",
         "sensory-property", "def-expand", "x1"]
PREFIXES = ["re*", "sens*", "def*", "def/a*", "*", "item*", "Bl*", "label/x*", "r*ed", "xy*"]
SLASHED = ["def/abc", "label/x1", "duration/3", "Def/Abc/3", "red/foo", "duration/3 s", "event/sensory-event"]
OPEN = {"paren": "(", "desc": "[", "exact": "{", "exactnone": "{", "exactopt": "{"}
CLOSE = {"paren": ")", "desc": "]", "exact": "}", "exactnone": "}", "exactopt": "}"}


# ------------------------------------------------------------------------------------------ generators

def gen_atom(rng, allow_wild=True):
    r = rng.random()
    if r < 0.50:
        return ("term", rng.choice(WORDS))
    if r < 0.60:
        return ("term", '"' + rng.choice(WORDS + SLASHED[:3] + ["Duration/3"]) + '"')
    if r < 0.70:
        return ("term", rng.choice(PREFIXES))
    if r < 0.76:
        return ("term", rng.choice(SLASHED).replace(" ", ""))
    if r < 0.82:
        return ("term", "@" + rng.choice(WORDS))
    if not allow_wild:
        return ("term", rng.choice(WORDS))
    return ("wild", rng.choice(["?", "??", "???"]))


def gen_query(rng, depth, allow_wild=True, allow_neg=True):
    """A member of the grammar {term, "term", term*, ?, ??, ???, &&, ||, ~, ( ), [ ], { }, {:}} of nesting <= depth."""
    if depth <= 0 or rng.random() < 0.18:
        return gen_atom(rng, allow_wild)
    r = rng.random()
    sub = lambda **kw: gen_query(rng, depth - 1, **{"allow_wild": allow_wild, "allow_neg": allow_neg, **kw})
    if r < 0.30:
        return ("and", sub(), sub(), rng.choice(["&&", "&&", "&&", ","]))
    if r < 0.50:
        return ("or", sub(), sub())
    if r < 0.60 and allow_neg:
        # the parser rejects ~ over wildcards; mostly avoid, sometimes keep (rejection is compared too)
        return ("neg", sub(allow_wild=allow_wild and rng.random() < 0.1))
    if r < 0.68:
        return ("paren", sub())
    if r < 0.80:
        return ("desc", sub())
    if r < 0.88:
        return ("exact", sub())
    keep_neg = allow_neg and rng.random() < 0.1     # the parser rejects ~ inside {:}
    if r < 0.93:
        return ("exactnone", sub(allow_neg=keep_neg))
    return ("exactopt", sub(allow_neg=keep_neg), sub(allow_neg=keep_neg))


LEVEL = {"or": 0, "and": 1, "neg": 2}


def toks(q, need=0):
    """Token list of the query with the parentheses the recursive descent needs to rebuild exactly this tree."""
    k = q[0]
    lvl = LEVEL.get(k, 3)
    if k in ("term", "wild"):
        out = [q[1]]
    elif k == "and":
        out = toks(q[1], 1) + [q[3]] + toks(q[2], 2)     # left-associative: a right operand that is an && needs ( )
    elif k == "or":
        out = toks(q[1], 0) + ["||"] + toks(q[2], 1)
    elif k == "neg":
        out = ["~"] + toks(q[1], 3)
    elif k == "exactnone":
        out = ["{"] + toks(q[1], 0) + [":", "}"]
    elif k == "exactopt":
        out = ["{"] + toks(q[1], 0) + [":"] + toks(q[2], 0) + ["}"]
    else:
        out = [OPEN[k]] + toks(q[1], 0) + [CLOSE[k]]
    if lvl < need:
        out = ["("] + out + [")"]
    return out


def render(q, rng=None, style=None):
    t = toks(q)
    if style is None:
        style = 0 if rng is None else rng.choice([0, 0, 1, 1, 2])
    if style == 0:
        return " ".join(t)
    out = ""
    for i, x in enumerate(t):
        if i and (style == 1 and x in "[]" and t[i - 1] == x):
            out += " "          # `[[` / `]]` were one (legacy) token before the repair: keep nested brackets apart
        elif i and x[0] not in "()[]{}:~,&|" and t[i - 1][0] not in "()[]{}:~,&|":
            out += " "
        out += x
    return out


def gen_tree(rng, depth):
    """children list: str (tag) or list (group); repeated tags and groups on purpose"""
    n = rng.choice([0, 1, 1, 2, 2, 3, 3, 4])
    kids = []
    for _ in range(n):
        r = rng.random()
        if kids and r < 0.15:
            kids.append(json.loads(json.dumps(rng.choice(kids))))
        elif depth > 0 and r < 0.50:
            kids.append(gen_tree(rng, depth - 1))
        else:
            kids.append(rng.choice(TAGS))
    return kids


def tree_str(kids):
    return ",".join(k if isinstance(k, str) else "(" + tree_str(k) + ")" for k in kids)


def shuffled(rng, kids):
    out = [k if isinstance(k, str) else shuffled(rng, k) for k in kids]
    rng.shuffle(out)
    return out


MAL_PIECES = ["(", ")", "[", "]", "{", "}", ":", "&&", "||", ",", "~", "?", "??", "???", "????", "a", "red", '"red"',
              "re*", "@a", " ", "&", "|", "[[", "]]", "é", "ß", "K", '"', "*", "@", "/", "def/abc", "b",
              "event", "A", "{a:}", "[a]", "(b)", "~a", "a&&b", ".", "#", "^", "_", "-", "中", "\t", "%", "'"]


def gen_malformed(rng):
    r = rng.random()
    if r < 0.6:
        return "".join(rng.choice(MAL_PIECES) for _ in range(rng.randint(0, 8)))
    # a well-formed query with one token deleted, duplicated or replaced
    t = toks(gen_query(rng, 3))
    i = rng.randrange(len(t))
    if r < 0.75:
        del t[i]
    elif r < 0.87:
        t.insert(i, t[i])
    else:
        t[i] = rng.choice(MAL_PIECES)
    return " ".join(t)


# ------------------------------------------------------------------------------------------ adapters

def prefold(q):
    """the model folds ASCII itself; other characters are folded here with the real str.casefold"""
    return "".join(c if ord(c) < 128 else c.casefold() for c in q)


def unbalanced(q):
    """grouping symbols ( ) [ ] { } of the query text do not nest properly"""
    st = []
    pair = {")": "(", "]": "[", "}": "{"}
    for c in q:
        if c in "([{":
            st.append(c)
        elif c in ")]}":
            if not st or st.pop() != pair[c]:
                return True
    return bool(st)


class Impl:
    def __init__(self):
        from hed import HedString, HedTag, load_schema_version
        from hed.models.query_handler import QueryHandler
        from hed.models import query_service
        self.HedString, self.HedTag, self.QueryHandler, self.qs = HedString, HedTag, QueryHandler, query_service
        self.schema = load_schema_version("8.3.0")
        # Before the repair fixes/C15_reject_stray_closers.diff a lone `)` and the legacy token `]]` compile; the
        # model has both parsers (`legacy` flag) so that the correspondence stays exact on either tree and the
        # defect is reported once, by the oracle, as a concrete violation.
        self.legacy = self.compile(")")[0] == "ok" and self.compile("]]")[0] == "ok"
        # Before the repair fixes/C15_same_tags_group_identity.diff `has_same_tags` compares the groups by equality:
        # the result of `~a && ~b` on the second of two equal groups is dropped (`structeq` flag of the model).
        st, h = self.compile("~green && ~blue")
        self.structeq = st == "ok" and len(h.search(self.hed("(Red),(Red)"))) == 2

    def hed(self, s):
        return self.HedString(s, self.schema)

    def tree(self, hs):
        """JSON tree for the model and the identity map id(obj) -> node id"""
        ids = {}

        def node(x):
            ids[id(x)] = len(ids)
            n = ids[id(x)]
            if isinstance(x, self.HedTag):
                return ["t", n, str(x), str(x).casefold(), x.org_tag.casefold(), list(x.tag_terms)]
            return ["g", n, [node(c) for c in x.children]]
        ids[id(hs)] = 0
        return {"id": 0, "kids": [node(c) for c in hs.children]}, ids

    def compile(self, q):
        """('ok', handler) | ('err', None) | ('raised', exception)"""
        try:
            return "ok", self.QueryHandler(q)
        except ValueError:
            return "err", None
        except Exception as e:  # noqa
            return "raised", e

    def results(self, handler, hs, ids):
        return [[ids[id(r.group)], [ids[id(x)] for x in r.tags]] for r in handler.search(hs)]


def op_count(q):
    return sum(q.count(x) for x in ("&&", "||", "~", "[", "{", "(", ",", "?"))


# ------------------------------------------------------------------------------------------ checks

def check_pairs(ctx, im, pairs, kind):
    """pairs: [(query text, annotation text)] - correspondence + per-pair oracle"""
    prepared, reqs = [], []
    for q, s in pairs:
        hs = im.hed(s)
        before = str(hs)
        tj, ids = im.tree(hs)
        prepared.append((q, s, hs, before, tj, ids))
        reqs.append({"op": "c15.eval", "text": prefold(q), "tree": tj, "legacy": im.legacy, "structeq": im.structeq})
    ans = ctx.model.batch(reqs)
    for (q, s, hs, before, tj, ids), m in zip(prepared, ans):
        case = {"kind": "pair", "q": q, "hed": s}
        st, h = im.compile(q)
        ctx.count(f"{kind}-parse-{st}")
        if st == "raised":
            ctx.violation("parse-raised-not-ValueError", case, f"{type(h).__name__}: {h}")
            continue
        if st == "ok" and unbalanced(q):
            ctx.violation("unbalanced-grouping-compiles", {"kind": "parse", "q": q}, f"compiled to {str(h)!r}")
        if "bad-op" in m:
            ctx.disagree("driver answered bad-op", case, m, st)
            continue
        if m["ok"] != (st == "ok"):
            ctx.disagree("Query.parse outcome = QueryHandler(q) outcome", case, m, st)
            ctx.case((q, s), nontrivial=False)
            continue
        if st != "ok":
            ctx.case((q, s), nontrivial=False)
            continue
        try:
            res = im.results(h, hs, ids)
            res2 = im.results(h, hs, ids)
        except Exception as e:  # noqa
            ctx.violation("search-raised", case, f"{type(e).__name__}: {e}")
            continue
        ctx.case((q, s), nontrivial=op_count(q) > 0 and len(ids) > 1, sample=case)
        ctx.count("match" if res else "no-match")
        if res != m["results"] or bool(res) != m["match"]:
            ctx.disagree("Query.eval = QueryHandler.search (results by identity)", case,
                         {"match": m["match"], "results": m["results"]}, {"match": bool(res), "results": res})
        if res2 != res:
            ctx.violation("repeated-search-differs", case, {"first": res, "second": res2})
        after_tree, _ = im.tree(hs)
        if str(hs) != before or after_tree != tj:
            ctx.violation("search-altered-annotation", case, {"before": before, "after": str(hs)})


def term_oracle(ctx, im, rng, n):
    """bare / quoted / prefix terms against their documented meaning, computed from the tags themselves"""
    for _ in range(n):
        s = tree_str(gen_tree(rng, 4))
        hs = im.hed(s)
        tags = hs.get_all_tags()
        w = rng.choice(WORDS + [t.split("/")[-1] for t in TAGS if " " not in t])
        for mode, q in (("bare", w), ("quoted", f'"{w}"'), ("prefix", w[:rng.randint(1, len(w))] + "*")):
            if len(w) < 2 and mode == "quoted":
                continue
            st, h = im.compile(q)
            if st != "ok":
                ctx.violation("plain-term-rejected", {"kind": "parse", "q": q}, st)
                continue
            got = bool(h.search(hs))
            f = q.casefold()
            if mode == "bare":
                want = any(f in t.tag_terms for t in tags)
            elif mode == "quoted":
                want = any(str(t).casefold() == f[1:-1] for t in tags)
            else:
                want = any(t.short_tag.casefold().startswith(f[:-1]) for t in tags)
            ctx.evaluations += 1
            ctx.count(f"law-term-{mode}")
            if got != want:
                ctx.violation(f"term-{mode}", {"kind": "pair", "q": q, "hed": s}, {"got": got, "want": want})


def pair_oracle(ctx, im, rng, n):
    """`a && b`, `[a && b]`, `{a && b}` for bare terms against their documented meaning ("via distinct tags"):
    two different tags; two different tags inside a common parenthesised group; two different tags that are
    direct children of the same parenthesised group."""
    def anc(t):
        out, g = [], t._parent
        while g is not None:
            out.append(g)
            g = g._parent
        return out
    for _ in range(n):
        s = tree_str(gen_tree(rng, 4))
        hs = im.hed(s)
        tags = hs.get_all_tags()
        terms = sorted({x for t in tags for x in t.tag_terms}) or ["red"]
        w1 = rng.choice(terms + WORDS[:6])
        w2 = rng.choice(terms + WORDS[:6])
        t1s = [t for t in tags if w1.casefold() in t.tag_terms]
        t2s = [t for t in tags if w2.casefold() in t.tag_terms]
        pairs = [(a, b) for a in t1s for b in t2s if a is not b]
        want = {"and": bool(pairs), "desc": False, "exact": False}
        for a, b in pairs:
            ib = {id(g) for g in anc(b)}
            if any(id(g) in ib and g.is_group for g in anc(a)):
                want["desc"] = True
            if a._parent is b._parent and a._parent.is_group:
                want["exact"] = True
        for k, q in (("and", f"{w1} && {w2}"), ("desc", f"[{w1} && {w2}]"), ("exact", "{" + f"{w1} && {w2}" + "}")):
            st, h = im.compile(q)
            if st != "ok":
                ctx.violation("plain-term-rejected", {"kind": "parse", "q": q}, st)
                continue
            got = bool(h.search(hs))
            ctx.evaluations += 1
            ctx.count(f"law-terms-{k}")
            if got != want[k]:
                ctx.violation(f"distinct-tags-{k}", {"kind": "pair", "q": q, "hed": s}, {"got": got, "want": want[k]})


DUP_POOL = ["Red", "Blue", "Green", "Square", "Circle", "Triangle", "Onset", "Clear-throat", "Yellow", "Purple"]


def dup_scenario(rng, pool):
    """An annotation with two or three structurally equal sub-groups at different places, each next to a side tag
    that occurs nowhere else.  Returns (top, parents, copies, D members, side tags); `top` is a children list whose
    items listed in `parents` are the groups holding a copy, `copies` are the copies themselves (all by identity)."""
    tags = rng.sample(pool, 8)
    d_size = rng.choice([2, 2, 3])
    members = tags[:d_size]
    sides = tags[d_size:d_size + 3]
    inner = rng.random() < 0.25                       # a nested group inside the duplicated group
    n_copies = rng.choice([2, 2, 2, 3])
    layout = rng.choice(["parent", "parent", "parent", "top", "deep", "mixed"])
    top, parents, copies = [], [], []
    for i in range(n_copies):
        d = list(members)
        if inner:
            d = d[:-1] + [[d[-1]]]
        rng.shuffle(d)
        copies.append(d)
        if layout == "top" or (layout == "mixed" and i == 0):
            top.append(d)
            if layout == "top":
                top.append(sides[i])
        else:
            par = [d, sides[i]]
            if rng.random() < 0.3:
                par.append(tags[7])
            rng.shuffle(par)
            parents.append(par)
            if layout == "deep" and i == 0:
                top.append([par, tags[6]])
            else:
                top.append(par)
    if rng.random() < 0.3:
        top.append(tags[6] if layout != "deep" else tags[5])
    rng.shuffle(top)
    return top, parents, copies, members, sides[:n_copies]


def dup_variants(rng, top, parents, copies, cap=40):
    """sibling reorderings: ALL permutations of the top level x of the children of every parent of a copy x of the
    members of every copy when that is at most `cap` annotations, else `cap` random ones (identity always first)"""
    import itertools
    import math
    special = {id(x): x for x in parents + copies}

    def build(node, choice):
        out = []
        for k in (choice.get(id(node)) or node):
            out.append(k if isinstance(k, str) else build(k, choice))
        return out
    spaces = [list(itertools.permutations(top))] + [list(itertools.permutations(x)) for x in special.values()]
    total = math.prod(len(sp) for sp in spaces)
    keys = [id(top)] + list(special)
    seen, out = set(), []

    def emit(pick):
        s = tree_str(build(top, dict(zip(keys, pick))))
        if s not in seen:
            seen.add(s)
            out.append(s)
    emit([top] + list(special.values()))
    if total <= cap:
        for pick in itertools.product(*spaces):
            emit(pick)
    else:
        for _ in range(cap):
            emit([rng.choice(sp) for sp in spaces])
    return out


# ------------------------------------------------------------------------------ {required: optional}

def opt_render(spec):
    k = spec[0]
    if k == "bare":
        return spec[1]
    if k == "quoted":
        return '"' + spec[1] + '"'
    if k == "star":
        return spec[1] + "*"
    if k == "wild":
        return spec[1]
    return f"{opt_render(spec[1])} {'&&' if k == 'and' else '||'} {opt_render(spec[2])}"


def opt_sets(im, spec, group):
    """the sets of direct children of `group` that one same-level match of the optional part can consist of
    (documented meaning: a term is a tag of this group, `??` a tag, `???` a sub-group, `?` any child)"""
    k = spec[0]
    kids = list(group.children)
    tags = [c for c in kids if isinstance(c, im.HedTag)]
    if k == "bare":
        return {frozenset([id(c)]) for c in tags if spec[1].casefold() in c.tag_terms}
    if k == "quoted":
        return {frozenset([id(c)]) for c in tags if str(c).casefold() == spec[1].casefold()}
    if k == "star":
        return {frozenset([id(c)]) for c in tags if c.short_tag.casefold().startswith(spec[1].casefold())}
    if k == "wild":
        pick = kids if spec[1] == "?" else tags if spec[1] == "??" else [c for c in kids if c not in tags]
        return {frozenset([id(c)]) for c in pick}
    a, b = opt_sets(im, spec[1], group), opt_sets(im, spec[2], group)
    if k == "or":
        return a | b
    return {x | y for x in a for y in b if not (x & y)}


def optional_expected(im, hs, req, spec):
    """`{r1 && r2..: opt}` from the documentation: some parenthesised group whose children are exactly distinct
    tags for the required terms (at that level) and, optionally, one same-level match of the optional part"""
    import itertools
    for g in hs.get_all_groups():
        if not g.is_group:
            continue
        tags = [c for c in g.children if isinstance(c, im.HedTag)]
        allk = frozenset(id(c) for c in g.children)
        osets = None
        for pick in itertools.permutations(tags, len(req)):
            if all(w.casefold() in t.tag_terms for w, t in zip(req, pick)):
                rest = allk - frozenset(id(t) for t in pick)
                if not rest:
                    return True
                if osets is None:
                    osets = opt_sets(im, spec, g)
                if rest in osets:
                    return True
    return False


def optional_check(ctx, im, req, spec, s):
    hs = im.hed(s)
    r = " && ".join(req)
    o = opt_render(spec)
    q = "{" + f"{r}: {o}" + "}"
    q2 = "{" + f"{r}:" + "} || {" + f"{r} && ({o}):" + "}"
    case = {"kind": "optional", "req": req, "opt": spec, "q": q, "hed": s}
    st, h = im.compile(q)
    st2, h2 = im.compile(q2)
    if st != "ok" or st2 != "ok":
        ctx.violation("plain-query-rejected", {"kind": "parse", "q": q if st != "ok" else q2}, st)
        return None
    got, got2 = bool(h.search(hs)), bool(h2.search(hs))
    want = optional_expected(im, hs, req, spec)
    ctx.evaluations += 2
    ctx.count("optional-cases")
    ctx.count("optional-match" if want else "optional-no-match")
    if got != want:
        ctx.violation("exact-optional-same-level", case, {"got": got, "documented": want})
    if got != got2:
        ctx.violation("exact-optional-equiv", dict(case, q2=q2), {q: got, q2: got2})
    return q


def optional_oracle(ctx, im, rng, n):
    """`{A: B}`: groups made of the required tags plus one extra child that is the optional tag itself, a sub-group
    holding it at depth 1-3, a sub-group holding it among others, or two extra children; mostly no group that
    matches the required part alone.  Checked against the documented meaning (computed from the annotation) and
    against `{A:} || {A && B:}`; the pairs also go through the model correspondence."""
    pool = [t for t in DUP_POOL if im.hed(t).get_all_tags()[0].tag_terms]
    term = {t: im.hed(t).get_all_tags()[0].tag_terms[-1] for t in pool}
    pairs = []
    for _ in range(n):
        tags = rng.sample(pool, 7)
        nreq = rng.choice([1, 1, 2])
        R, O, X, Y = tags[:nreq], tags[nreq], tags[nreq + 1], tags[nreq + 2]
        req = [term[t] for t in R]
        r = rng.random()
        spec = ["bare", term[O]] if r < 0.3 else ["quoted", O] if r < 0.4 else ["star", O[:3].lower()] if r < 0.5 else \
            ["and", ["bare", term[O]], ["bare", term[X]]] if r < 0.62 else \
            ["or", ["bare", term[O]], ["bare", term[X]]] if r < 0.74 else \
            ["and", ["bare", term[O]], ["wild", "???"]] if r < 0.8 else \
            ["wild", rng.choice(["?", "??", "???"])]

        def deep(x, d):
            for _ in range(d):
                x = [x]
            return x
        shapes = [R + [O], R + [deep(O, 1)], R + [deep(O, 2)], R + [deep(O, 3)], R + [[O, X, Y]], R + [[X, [O]]],
                  R + [O, X], R + [O, [O]], R + [[O], X], R + [X], R + [[X]], R + [O, O], R + [X, O], list(R)]
        weights = [3, 4, 3, 2, 3, 2, 2, 2, 2, 1, 1, 1, 2, 1]
        top = []
        for _ in range(rng.choice([1, 1, 2, 3])):
            g = list(rng.choices(shapes, weights)[0])
            rng.shuffle(g)
            w = rng.random()
            top.append(g if w < 0.6 else [Y, g] if w < 0.8 else [[g]])
        if rng.random() < 0.4:
            top.append(rng.choice([O, X, [O], R[0]]))
        rng.shuffle(top)
        s = tree_str(top)
        q = optional_check(ctx, im, req, spec, s)
        if q:
            pairs.append((q, s))
            ctx.case((q, s), nontrivial=True)
    check_pairs(ctx, im, pairs, "optional")


def dup_signature(im, q):
    """the family of finding 'has_same_tags compares groups by equality': only on a tree that has that code, only
    for queries that produce results without children (`~`, `@`), only from the equal-sub-groups generator"""
    return "C15-childless-results-on-equal-groups" if im.structeq and ("~" in q or "@" in q) else None


def dup_oracle(ctx, im, rng, n):
    """Sibling-order invariance, &&-commutativity and &&-associativity on annotations with structurally equal
    sub-groups, for queries that lift an && result through [ ] / { } and combine it with a term that sits next to
    only one of the copies (or with a second lifted result)."""
    pool = [t for t in DUP_POOL if im.hed(t).get_all_tags()[0].tag_terms]
    term = {t: im.hed(t).get_all_tags()[0].tag_terms[-1] for t in pool}
    for _ in range(n):
        top, parents, copies, members, sides = dup_scenario(rng, pool)
        a, b = (term[x] for x in rng.sample(members, 2))
        variants = dup_variants(rng, top, parents, copies)
        hss = [im.hed(s) for s in variants]
        lifted = [f"[{a} && {b}]", "{" + f"{a} && {b}" + "}", f"[{b} && {a}]"]
        absent = [term[x] for x in pool if x not in tree_str(top)][:3] + ["xyzzy", "qwerty", "foo"]
        x1, x2, x3 = absent[:3]
        # results without children (negation, @) on equal groups: the duplicate filter must not merge them
        neg_lifted = [f"[~{x1} && ~{x2}]", f"[@{x1} && @{x2}]", "{" + f"~{x1} && ~{x2}" + "}"]
        queries, comm, assoc = [], [], []
        for side in sides:
            c = term[side]
            L = rng.choice(lifted)
            queries += [f"{L} && {c}", f"[{L} && {c}]", "{" + f"{L} && {c}" + "}", f"[[{a} && {b}] && {c}]"]
            N = rng.choice(neg_lifted)
            queries += [f"[{N} && {c}]", "{" + f"{N} && {c}" + "}", f"[[~{x1} && ~{x2}] && {c}]"]
            comm += [(L, c), (N, c)]
            assoc += [(L, c, rng.choice(lifted)), (N, c, f"~{x3}")]
        queries += [f"{lifted[0]} && {lifted[0]}", f"{lifted[1]} && {lifted[1]}", f"{lifted[0]} && {lifted[2]}",
                    f"[{lifted[0]} && {lifted[0]}]", f"{lifted[0]} && {lifted[1]}"]
        comm += [(lifted[0], lifted[1]), (lifted[0], lifted[2])]
        assoc += [(f"~(~{x1} && ~{x2})", f"~{x3}", f"~{x1}"), (f"~(~{x1} && ~{x2})", f"~{x3}", lifted[0])]
        compiled = {}

        def val(q, k):
            if q not in compiled:
                st, h = im.compile(q)
                if st != "ok":
                    ctx.violation("plain-query-rejected", {"kind": "parse", "q": q}, st)
                compiled[q] = h
            h = compiled[q]
            return None if h is None else bool(h.search(hss[k]))
        ctx.count("dup-scenarios")
        ctx.count("dup-annotations", len(variants))
        any_match = False
        for q in dict.fromkeys(queries):
            vals = [val(q, k) for k in range(len(variants))]
            ctx.evaluations += len(vals)
            any_match = any_match or any(vals)
            if len(set(vals)) > 1:
                k1, k2 = vals.index(True), vals.index(False)
                ctx.violation("sibling-order", {"kind": "order", "q": q, "hed": variants[k1], "hed2": variants[k2]},
                              {"matches_first": True, "matches_reordered": False}, dup_signature(im, q))
        for x, y in comm:
            for k in range(len(variants)):
                if val(f"{x} && {y}", k) != val(f"{y} && {x}", k):
                    ctx.violation("and-commutative", {"kind": "law", "A": x, "B": y, "C": y, "hed": variants[k],
                                                      "law": "and-commutative"}, f"{x} && {y} vs {y} && {x}",
                                  dup_signature(im, x + y))
                    break
        for x, y, z in assoc:
            for k in range(len(variants)):
                ctx.evaluations += 1
                if val(f"({x} && {y}) && {z}", k) != val(f"{x} && ({y} && {z})", k):
                    ctx.violation("and-associative", {"kind": "law", "A": x, "B": y, "C": z, "hed": variants[k],
                                                      "law": "and-associative"}, "", dup_signature(im, x + y + z))
                    break
        ctx.case((tuple(variants[:1]), a, b), nontrivial=any_match)
        ctx.check_time()


def law_oracle(ctx, im, rng, n_triples, trees_per):
    """the algebraic laws on the implementation; A, B, C are rendered in parentheses so that they compose"""
    def grp(x):
        return ("paren", x) if x[0] in ("and", "or", "neg") else x

    for _ in range(n_triples):
        A, B, C = (grp(gen_query(rng, 2)) for _ in range(3))
        a, b, c = render(A, style=0), render(B, style=0), render(C, style=0)
        qs = {"A": a, "B": b, "C": c, "A||B": f"{a} || {b}", "B||A": f"{b} || {a}", "A&&B": f"{a} && {b}",
              "B&&A": f"{b} && {a}", "(A&&B)&&C": f"({a} && {b}) && {c}", "A&&(B&&C)": f"{a} && ({b} && {c})",
              "A,B": f"{a} , {b}"}
        hd = {}
        bad = False
        for k, q in qs.items():
            st, h = im.compile(q)
            if st == "raised":
                ctx.violation("parse-raised-not-ValueError", {"kind": "parse", "q": q}, repr(h))
            if st != "ok":
                bad = True
                break
            hd[k] = h
        if bad:
            ctx.count("law-triple-rejected")     # e.g. ~ over a wildcard inside A
            continue
        for _ in range(trees_per):
            kids = gen_tree(rng, 4)
            s = tree_str(kids)
            hs = im.hed(s)
            before = str(hs)
            tj, ids = im.tree(hs)
            r = {k: im.results(h, hs, ids) for k, h in hd.items()}
            m = {k: bool(v) for k, v in r.items()}
            case = {"kind": "law", "A": a, "B": b, "C": c, "hed": s}
            ctx.case((a, b, c, s), nontrivial=m["A"] or m["B"] or m["C"])
            ctx.count("law-instances")

            def fail(clause, detail):
                ctx.violation(clause, dict(case, law=clause), detail)
            if m["A||B"] != (m["A"] or m["B"]):
                fail("or-iff", m)
            if m["A||B"] != m["B||A"]:
                fail("or-commutative", m)
            if m["A&&B"] and not (m["A"] and m["B"]):
                fail("and-implies-both", m)
            if m["A&&B"] != m["B&&A"]:
                fail("and-commutative", m)
            if m["A&&B"] != m["A,B"]:
                fail("comma-is-and", m)
            if m["(A&&B)&&C"] != m["A&&(B&&C)"]:
                fail("and-associative", m)
            # via distinct tags: every result of A && B is one result of A joined with one of B, no shared child
            for g, tg in r["A&&B"]:
                ok = len(set(tg)) == len(tg) and any(
                    ga == g and gb == g and not (set(ta) & set(tb)) and set(ta) | set(tb) == set(tg)
                    for ga, ta in r["A"] for gb, tb in r["B"])
                if not ok:
                    fail("and-distinct-tags", {"result": [g, tg], "A": r["A"], "B": r["B"]})
                    break
            # sibling order
            s2 = tree_str(shuffled(rng, kids))
            hs2 = im.hed(s2)
            for k in ("A", "A&&B", "A||B", "(A&&B)&&C"):
                if bool(hd[k].search(hs2)) != m[k]:
                    fail("sibling-order", {"query": qs[k], "shuffled": s2, "orig": m[k]})
                    break
            # repeated searches agree, annotation unaltered
            for k in ("A&&B", "(A&&B)&&C"):
                if im.results(hd[k], hs, ids) != r[k]:
                    fail("repeated-search-differs", qs[k])
            t2, _ = im.tree(hs)
            if str(hs) != before or t2 != tj:
                fail("search-altered-annotation", {"before": before, "after": str(hs)})
        ctx.check_time()


def service_check(ctx, im, rng, n_batches):
    """`get_query_handlers` / `search_hed_objs` against `Query.getHandlers` / `Query.searchObjs` and against the
    single searches: one handler per compilable query, one issue per other query (plus one for bad names), one
    column per handler, 1 exactly where the object is non-empty and the query matches it."""
    for _ in range(n_batches):
        nq = rng.choice([0, 1, 3, 5, 5])
        queries = [render(gen_query(rng, 3), rng) if rng.random() < 0.8 else gen_malformed(rng) for _ in range(nq)]
        strings = [tree_str(gen_tree(rng, 3)) for _ in range(6)]
        r = rng.random()
        names = None if r < 0.6 else [f"n{i}" for i in range(nq)] if r < 0.8 else \
            [f"n{i % 2}" for i in range(nq)] if r < 0.9 else [f"n{i}" for i in range(nq + 1)]
        case0 = {"kind": "service", "queries": queries, "names": names}
        try:
            handlers, hnames, issues = im.qs.get_query_handlers(queries, names)
        except Exception as e:  # noqa
            ctx.violation("get_query_handlers-raised", case0, repr(e))
            continue
        objs = [im.hed(s) for s in strings]
        if im.legacy:
            continue
        m = ctx.model.batch([{"op": "c15.batch", "queries": [prefold(q) for q in queries], "names": names or None,
                              "trees": [im.tree(o)[0] for o in objs], "structeq": im.structeq}])[0]
        ctx.evaluations += 1
        ctx.count("service-batches")
        if handlers is None:
            if not m.get("none"):
                ctx.disagree("Query.getHandlers = get_query_handlers", case0, m, "None")
            continue
        sts = [im.compile(q)[0] for q in queries]
        if [h is not None for h in handlers] != [x == "ok" for x in sts] or \
                len(issues) < sum(1 for x in sts if x != "ok"):
            ctx.violation("get_query_handlers-outcome", case0, issues)
            continue
        if m.get("none") or m["handlers"] != [h is not None for h in handlers] or m["issues"] != len(issues) \
                or m["names"] != list(hnames):
            ctx.disagree("Query.getHandlers = get_query_handlers", case0, m,
                         {"handlers": [h is not None for h in handlers], "issues": len(issues), "names": list(hnames)})
            continue
        good = [i for i, h in enumerate(handlers) if h is not None]
        if not good or len(set(hnames)) != len(hnames) or len(hnames) != len(queries):
            continue
        df = im.qs.search_hed_objs(objs, [handlers[i] for i in good], [hnames[i] for i in good])
        for col, i in enumerate(good):
            for j, o in enumerate(objs):
                want = 1 if (bool(o) and bool(handlers[i].search(o))) else 0
                got = int(df.at[j, hnames[i]])
                ctx.evaluations += 1
                ctx.count("service-cells")
                case = {"kind": "pair", "q": queries[i], "hed": strings[j]}
                if got != want:
                    ctx.violation("search_hed_objs-cell", case, {"got": got, "want": want})
                if m["cells"][j][col] != got:
                    ctx.disagree("Query.searchObjs = search_hed_objs cell", case, m["cells"][j][col], got)


CORPUS_Q = ["a", "a && b", "a || b", "~a", "[a]", "{a}", "{a:}", "{a: b}", "?", "??", "???", "a && ?", "[ [a] && b ]",
            "{a && ??:}", "(a || b) && c", "@b", "@b && c", "{ @c && @a && b: ???}", "{(Onset || Offset), (Def || {Def-expand}): ???}",
            '"Event"', "Eve*", "Def/Abc/*", "Event && Action", "[Event && Action]", "{Event && Action:Agent}",
            "~a && ~b", "(~a && ~b) && red", "~a || ~b", "(~a || ~b) && red", "a,b", "[[a]]", "[[a] && b]"]
CORPUS_BAD = [")", "]", "}", "&&", "[[", "]]", "@", "~~", ":", "a )", "{a:b", "{a:", "{a", "{a:~b}", "~?", "~????",
              "????", "a ? b", '"a', '""', "", " ", "(", "{", "a||", "(a))", "a:b", "{a:b:c}", "{a}}", "A &&", "(A && B",
              "&& B", "A, ", ", A", "A)", "a ]", "[a)", "(a]", "{a)", "||", ",", "~", "~ )", "( )", "[ ]", "{ }", "{ : }"]
CORPUS_H = ["", "A", "A,B", "(A,B)", "(A,B),C", "(A,(B)),(A,(B))", "(Red),(Red)", "Red,Red", "(A,B,(C,D)),E",
            "()", "Red,()", "((A),B)", "(A),(A),(B,(A))", "(Onset,Def/Abc,(Red))", "(Item,(Clear-throat))",
            "Event/Sensory-event,(Agent-action,(Item/Object))", "((((A))))", "(Red,Blue),(Blue,Red)"]


def run(ctx):
    im = Impl()
    rng = ctx.rng
    quick = ctx.quick()
    ctx.extra["pre_repair_parser_detected"] = im.legacy
    ctx.extra["pre_repair_has_same_tags_detected"] = im.structeq
    ctx.extra["rule"] = ("queries drawn from the grammar {term, \"term\", term*, term/value, @term, ?, ??, ???, &&, ',', ||, ~, "
                         "( ), [ ], { }, {:}, {: }} to nesting 4 (rendered spaced / compact) plus a malformed stream (token "
                         "soup, one-token edits of well-formed queries); annotations to depth 4 over real 8.3.0 tags with "
                         "repeated tags/groups, empty groups, empty string; law instances = (A,B,C) x annotation; "
                         "non-trivial = compiled query with an operator on an annotation with a tag, or a law "
                         "instance where A, B or C matches")
    # corpus
    check_pairs(ctx, im, [(q, h) for q in CORPUS_Q + CORPUS_BAD for h in CORPUS_H[:6]], "corpus")
    check_pairs(ctx, im, [(q, h) for q in CORPUS_Q for h in CORPUS_H[6:]], "corpus")
    # parse outcome on the malformed stream (annotation irrelevant: pair each with one annotation)
    n_mal = 1500 if quick else 20000
    mal = [gen_malformed(rng) for _ in range(n_mal)]
    for lo in range(0, len(mal), 4000):
        check_pairs(ctx, im, [(q, rng.choice(CORPUS_H)) for q in mal[lo:lo + 4000]], "malformed")
        ctx.check_time()
    # grammar queries x annotations
    n_q, per = (700, 5) if quick else (6500, 8)
    pairs = []
    for _ in range(n_q):
        q = render(gen_query(rng, rng.choice([1, 2, 3, 4, 4])), rng)
        for _ in range(per):
            pairs.append((q, tree_str(gen_tree(rng, 4))))
    for lo in range(0, len(pairs), 4000):
        check_pairs(ctx, im, pairs[lo:lo + 4000], "grammar")
        ctx.check_time()
    ctx.extra["grammar_pairs"] = len(pairs)
    ctx.extra["malformed_queries"] = n_mal
    # laws on the implementation
    term_oracle(ctx, im, rng, 150 if quick else 3000)
    pair_oracle(ctx, im, rng, 300 if quick else 6000)
    dup_oracle(ctx, im, rng, 60 if quick else 1500)
    optional_oracle(ctx, im, rng, 400 if quick else 8000)
    law_oracle(ctx, im, rng, *((220, 5) if quick else (4000, 6)))
    service_check(ctx, im, rng, 12 if quick else 150)
    # report the smallest divergence / violation first
    ctx.disagreements.sort(key=lambda d: len(json.dumps(d["case"])))
    ctx.violations.sort(key=lambda v: len(json.dumps(v["case"], default=str)))


def replay(ctx, rec):
    im = Impl()
    case = rec.get("case") or (rec.get("disagreements") or [{}])[0].get("case")
    if not case:
        print("nothing to replay (obligation-only record):", rec.get("broken_obligations"))
        return
    kind = case.get("kind")
    if kind == "parse":
        st, h = im.compile(case["q"])
        m = ctx.model.batch([{"op": "c15.parse", "text": prefold(case["q"]), "legacy": im.legacy}])[0]
        print("replayed", json.dumps(case), "impl:", st, "model:", json.dumps(m), "unbalanced:", unbalanced(case["q"]))
        check_pairs(ctx, im, [(case["q"], "A")], "replay")
    elif kind == "pair":
        check_pairs(ctx, im, [(case["q"], case["hed"])], "replay")
        print("replayed", json.dumps(case), "violations:", len(ctx.violations), "disagreements:", len(ctx.disagreements))
    elif kind == "optional":
        optional_check(ctx, im, case["req"], case["opt"], case["hed"])
        check_pairs(ctx, im, [(case["q"], case["hed"])], "replay")
        print("replayed", json.dumps(case), "violations:", [v["clause"] for v in ctx.violations],
              "disagreements:", len(ctx.disagreements))
    elif kind == "order":
        st, h = im.compile(case["q"])
        r1, r2 = (bool(h.search(im.hed(case[k]))) for k in ("hed", "hed2"))
        print("replayed", json.dumps(case), "matches:", r1, "reordered:", r2)
        if r1 != r2:
            ctx.violation("sibling-order", case, {"matches_first": r1, "matches_reordered": r2})
        check_pairs(ctx, im, [(case["q"], case["hed"]), (case["q"], case["hed2"])], "replay")
    elif kind == "law":
        a, b, c, s = case["A"], case["B"], case["C"], case["hed"]
        hs = im.hed(s)
        for name, q in (("A", a), ("B", b), ("C", c), ("A&&B", f"{a} && {b}"), ("B&&A", f"{b} && {a}"),
                        ("A||B", f"{a} || {b}"), ("(A&&B)&&C", f"({a} && {b}) && {c}"),
                        ("A&&(B&&C)", f"{a} && ({b} && {c})")):
            st, h = im.compile(q)
            print(f"  {name:10} {q!r}: {st} match={bool(h.search(hs)) if h else None}")
        check_pairs(ctx, im, [(q, s) for q in (a, b, c, f"{a} && {b}", f"({a} && {b}) && {c}", f"{a} && ({b} && {c})")],
                    "replay")
        print("replayed law", case.get("law"), "disagreements:", len(ctx.disagreements))
    else:
        print("unknown case kind", case)
