"""C07, closed mode — the whole pipeline file -> issues inside Lean.

`closed.c07` (lean/HedVerif/Driver/Closed.lean) runs `Tabular.validateClosed`: the file model of C07 with its string-level
oracles instantiated by the string-validator model of C01 (`Validate`, lean/HedVerif/Model/Closed.lean).  One
self-contained request carries the schema environment (our own XML reading, as in c01.py), the definition dictionary and
the tables; nothing is recorded from the real validator.  The answer is compared with the real
`TabularInput/SpreadsheetInput.validate`: exception class, or the complete sorted (kind, severity, ec_row, ec_column) list.
Rows that get the row-level checks although one of their cells is malformed are computed on the concatenation of the
cells' trees (`Tabular.validateClosedCells`, equal to `validateClosed` when there is no such row).  Tables holding a string
outside the C01 model's fragment (a Delay value that `float()` may read more liberally than the model or that is off the 1/8 s
grid, an unsupported value-class pattern, a string on which the real validator
raises) are answered `unmodelled`: skipped and counted by reason.

Third stream (`run_closed_raw`, op `closed.c07raw`): the model side gets the sidecar JSON and the raw table only; assembly
(C06 model), the file layer's configuration, the file layer and string validation are all computed in Lean
(`Tabular.validateClosedRaw`) and compared with the real `TabularInput(table, sidecar).validate(schema, extra_def_dicts)`:
column names of the assembled frame, exception class, complete sorted issue list.
"""
import json

from harness.props import c01, c07
from harness.props.c10 import render_marker, KINDS, NAMES

BUDGET_S = 30
FULL_ONLY = c07.FULL_ONLY + ["(Onset, Red)", "(Def/A, Onset, (Green), (Blue))", "(Def/C, Onset)", "(Def/A, Def/B, Onset)",
                             "Onset", "(Duration/3 s, Red, (Blue))", "((Red, Blue), (Blue, Red))", "(Def-expand/A, (Red))",
                             "(Def-expand/A, (Blue))", "(Def/B, Offset, (Green))", "(Inset, Def/A)"]
INVALID = [x for x in c07.INVALID] + ["Def/Zed", "Def/C", "Def/A/3", "Red/", "Red, , Blue", "(Red))", "Re~d", "Label/a#b",
                                       "Item-count/abc", "Definition/X", "Event", "Train/Blue", "Label/#", "(Item-count/#, Red)", "Def/C/#"]
INJECT = ["unknown_tag", "forbidden_extension", "missing_required_child", "bad_unit", "bad_value", "repeated_tag",
          "repeated_group", "misplaced_tag_group", "misplaced_top_level", "several_top_level", "empty_delimiter",
          "undeclared_def", "wrong_def_value", "altered_def_expand", "duplicated_unique"]


class Setup:
    """the two sides: the real validator with the c01 definition dictionary, and the model's environment"""

    def __init__(self, ctx):
        from hed.models import DefinitionDict
        from hed.schema.hed_schema_entry import pluralize
        from hed.validator.hed_validator import HedValidator
        self.real = c07.Real()
        self.v = c01.Vocab("8.3.0", pluralize.plural)
        self.v.defs = c01.defs_for(self.v)
        dd = DefinitionDict(c01.defs_string(self.v.defs), self.real.schema)
        if dd.issues or len(dd.defs) != len(self.v.defs):
            raise RuntimeError(f"the harness's own definitions are not accepted: {dd.issues}")
        self.real.dd = dd
        self.real.hv = HedValidator(self.real.schema, def_dicts=dd)
        self.variant = c07.detect_variant(self.real)
        self.gen = c01.Gen(ctx.rng, self.v, pluralize.plural)

    def env(self, texts):
        chars = sorted({c for t in texts for c in t if ord(c) > 127})
        return dict(self.v.payload(chars), **c01.detect_variant(), ns="")


DELAY_VALUES = [("0.5 s", 4), ("1 s", 8), ("1.5 s", 12), ("2 s", 16), ("0.125 s", 1), ("2.50 s", 20), ("500 ms", 4),
                ("1500 ms", 12), ("250 ms", 2), ("0.05 minute", 24), ("0.025 minutes", 12), ("1 seconds", 8), ("1", None),
                ("2.5", None)]
DELAY_UNSURE = ["1_0 s", " 1  s", "inf s", "nan", "0.3 s", "1.0001 s", "1e-1 s"]     # float() more liberal / off the 1/8 s grid
DELAY_INNER = ["Green", "Black", "(Red, Square)", "Triangle"]


def delay_fragment(rng, uid):
    """a Delay group: usable values in s / ms / minute (integer and decimal, on the grid), unitless (a warning, no value),
    values the code cannot use, spellings outside the model, and Delay-shifted temporal markers"""
    x = rng.random()
    if x < 0.32:
        return f"(Delay/{rng.choice(DELAY_VALUES)[0]}, ({rng.choice(DELAY_INNER)}, Label/d{uid}))"
    if x < 0.40:       # two Delay groups in one cell: two appended time points (the first with a fault of its own)
        return (f"(Delay/{rng.choice(DELAY_VALUES)[0]}, ({rng.choice(['Blue, Blue', 'Greenish', 'Green'])}, Label/d{uid})), "
                f"(Delay/{rng.choice(DELAY_VALUES)[0]}, ({rng.choice(DELAY_INNER)}, Label/e{uid}))")
    if x < 0.50:
        return rng.choice(c07.BAD_DELAY)
    if x < 0.57:
        return f"(Delay/{rng.choice(DELAY_UNSURE)}, (Label/d{uid}))"
    kind, name = rng.choice(KINDS), rng.choice(NAMES)
    return render_marker(kind, name, uid, delay=rng.choice([4, 8, 12, 16, 20, 24]))


def fragment(rng, g, uid, has_onset):
    x = rng.random()
    if x < (0.16 if has_onset else 0.03):
        return delay_fragment(rng, uid)
    x = rng.random()
    if x < 0.30:
        return rng.choice(c07.VALID)
    if x < 0.50:
        for _ in range(6):          # the long-form spellings of deep tags make long strings: keep cells short
            t = g.render(g.conforming(False))
            if len(t) <= 90:
                return t
        return rng.choice(c07.VALID)
    if x < 0.58:
        return rng.choice(INVALID)
    if x < 0.66:
        kind = rng.choice(INJECT)
        try:
            t = g.inject(kind, g.conforming(False), False) if kind in c01.SPEC else None
            t = t if t and len(t) <= 140 else None
        except Exception:
            t = None
        return t if t else rng.choice(INVALID)
    if x < 0.80:
        return rng.choice(FULL_ONLY)
    if x < 0.84:
        return f"(Duration/{rng.choice([1, 2.5, 30])} {rng.choice(['s', 'ms', 'seconds'])}, (Label/d{uid}))"
    return render_marker(rng.choice(KINDS), rng.choice(NAMES), uid)


def gen_table(rng, g, variant):
    modes = ["tabular", "tabular", "sidecar", "sheet"] + (["sheet_nohdr"] if variant["sortKeyFixed"] else [])
    mode = rng.choice(modes)
    n = rng.randint(1, 6)
    has_onset = mode in ("tabular", "sidecar") and rng.random() < 0.6
    ncols = 1 if mode == "tabular" else rng.randint(1, 3)
    onsets = None
    if has_onset:       # pairwise distinct (no merged time points: the sort's tie order is not an observable), some n/a
        onsets = rng.sample(range(1, 80), n)
        if rng.random() < 0.5:
            onsets.sort()
        if rng.random() < 0.2:
            onsets[rng.randrange(n)] = None
    uid = [rng.randint(0, 10 ** 6) * 10]

    def cell():
        if rng.random() < 0.2:
            return rng.choice(["n/a", ""])
        parts = []
        for _ in range(rng.choice([1, 1, 2])):
            uid[0] += 1
            parts.append(fragment(rng, g, uid[0], has_onset))
        return ", ".join(parts)
    cols = [[cell() for _ in range(n)] for _ in range(ncols)]
    spec = {"mode": mode, "onsets": onsets, "cols": cols, "sidecar": None}
    if mode == "sidecar":
        sc = {}
        if ncols >= 2:
            keys = {k: fragment(rng, g, uid[0] + 100 + i, has_onset) for i, k in enumerate(["a", "b", "c"])}
            cols[1] = [rng.choice(list(keys) + ["n/a", "zz"]) for _ in range(n)]
            sc["cat"] = {"HED": keys}
        if ncols >= 3:
            cols[2] = [rng.choice(["n/a", "v1", "w 3", "7"]) for _ in range(n)]
            sc["val"] = {"HED": rng.choice(["Label/#", "(Duration/# s, (White))", "Item-count/#", "(Label/#, Age/#)"])}
        spec["sidecar"] = sc
    return spec


WITNESS = [  # a row whose only error sits in a cell other than the last: still gets the full checks (`new_column_issues`)
    {"mode": "sheet", "onsets": None, "cols": [["Greenish", "Red"], ["Blue, Blue", "(Red, Onset)"]], "sidecar": None},
    {"mode": "tabular", "onsets": [8, 16, 24], "cols": [["(Def/A, Onset)", "(Def/A, Inset), (Def/B, Offset)", "(Def/a, Offset)"]],
     "sidecar": None},
    {"mode": "tabular", "onsets": [24, 8], "cols": [["(Def/C/1, Offset)", "(Def/C/1, Onset, (Red)), Red, Red"]], "sidecar": None},
    # Delay: a shifted Onset that makes a later Inset legal and an earlier one not
    {"mode": "tabular", "onsets": [8, 12, 24], "cols": [["(Delay/1 s, Def/A, Onset)", "(Def/A, Inset)", "(Def/A, Inset)"]],
     "sidecar": None},
    # unordered file with a Delay: the shifted Offset (label 0, onset 3.0 s + 1 s) must use the onset of its own row
    {"mode": "tabular", "onsets": [24, 8, 28], "cols": [["(Delay/1 s, Def/A, Offset)", "(Def/A, Onset, (Red))", "(Def/A, Inset)"]],
     "sidecar": None},
    # two Delay groups of one row: two time points, the fault of the first is reported
    {"mode": "tabular", "onsets": [8], "cols": [["(Delay/1 s, (Blue, Blue)), (Delay/2000 ms, (Red))"]], "sidecar": None},
    # unitless Delay (warning, no value: stays in its row), unusable unit, Delay in a row without numeric onset
    {"mode": "tabular", "onsets": [8, None, 16], "cols": [["(Delay/1, (Red))", "(Delay/1 s, (Green))", "(Delay/1 xyz, (Blue))"]],
     "sidecar": None},
]


def run_closed(ctx, specs=None, pairs=None):
    import time
    t0 = time.time()
    su = Setup(ctx)
    if pairs is not None:
        return run_closed_raw(ctx, su, pairs)
    generated = specs is None
    real, rng = su.real, ctx.rng
    if specs is None:
        n = 420 if ctx.quick() else 4000
        specs = list(WITNESS) + [gen_table(rng, su.gen, su.variant) for _ in range(n)]
    reqs = [real.request(s, su.variant) for s in specs]
    texts = [x for rq in reqs for r in rq["rows"] for x in r["cells"]]
    ans = []
    for lo in range(0, len(reqs), 500):
        a = ctx.model.batch([dict(su.env(texts), op="closed.c07", tables=reqs[lo:lo + 500])])[0]
        if "bad-op" in a:
            raise RuntimeError("driver: " + str(a["bad-op"]))
        ans += a["answers"]
    for spec, rq, m in zip(specs, reqs, ans):
        case = {"closed": True, "spec": spec}
        ctx.count("closed:tables")
        if "unmodelled" in m:
            ctx.count("closed:skipped-unmodelled:" + m["unmodelled"])
            continue
        obs = real.observe(spec)
        cells = sum(1 for r in rq["rows"] for x in r["cells"] if x and x != "n/a")
        ctx.case(("closed", json.dumps(spec, sort_keys=True)), nontrivial=len(rq["rows"]) >= 2 and cells >= 2)
        if "exc" in m or "exc" in obs:
            ctx.count("closed:compared-exception")
            if m.get("exc") != obs.get("exc"):
                ctx.disagree("Tabular.validateClosed = validate (exception)", case, m.get("exc", "issues"),
                             obs.get("exc", "issues"))
            continue
        # column-less labels of an onset file are compared modulo equal-time groups (the sort is not stable), as in c07.py
        classes = c07.classes_of([(t, r) for t, r in m.get("parts", [])], len(rq["rows"])) if rq["hasOnset"] else []
        if len(set(classes)) < len(classes):
            ctx.count("closed:compared-with-equal-time-rows")
        mine = c07.canon_obs([i[:4] for i in m["issues"]], classes, rq["rowAdj"], rq["hasOnset"])
        impl = c07.canon_obs([i["k"] for i in obs["issues"]], classes, rq["rowAdj"], rq["hasOnset"])
        ctx.count("closed:compared" + ("-onset" if rq["hasOnset"] else ""))
        if any("delay/" in x.casefold() for r in rq["rows"] for x in r["cells"]):
            ctx.count("closed:compared-with-Delay" + ("-onset" if rq["hasOnset"] else ""))
        if m.get("split"):
            ctx.count("closed:compared-with-malformed-cell-in-checked-row")
        for i in m["issues"]:
            ctx.count("closed:src-" + i[4])
        if any(i[4] == "row" for i in m["issues"]):
            ctx.count("closed:tables-with-row-level-issue")
        if mine != impl:
            ctx.disagree("Tabular.validateClosed = validate (complete kind, severity, ec_row, ec_column list)", case,
                         [x for x in mine if x not in impl][:6], [x for x in impl if x not in mine][:6])
        if time.time() - t0 > BUDGET_S and ctx.quick():
            ctx.count("closed:stopped-at-budget")
            break
    ctx.extra["closed_rule"] = ("closed mode: 1-6 rows, 1-3 HED-bearing columns, cells from c01's conforming / injected-fault "
                                "generator on 8.3.0, c07's fragments, Def/Def-expand uses, Duration groups and temporal markers "
                                "and Delay groups (s / ms / minute, unitless, unusable, two per cell, Delay-shifted markers; spellings float() reads more "
                                "liberally and off-grid values exercise the skip), distinct onsets; string validation and Delay values "
                                "computed by Validate inside Lean")
    ctx.check_time()
    if generated:
        run_closed_raw(ctx, su)


# ------------------------------------------------------------------------------------------ raw stream (C06 o C07 o C01)
RAW_BUDGET_S = 25
RAW_NAMES = ["a", "b", "c", "resp", "x_y", "k-1"]
RAW_VALUE = ["Label/#", "Item-count/#", "(Duration/# s, (White))", "Age/# years", "Label/#, Red", "(Label/#, Blue)", "Def/C/#",
             "(Delay/# s, (White))", "(Delay/# minute, (Label/dv))"]
RAW_FORMS = ["{%(t)s}, %(s)s", "(%(s)s, {%(t)s})", "%(s)s, ({%(t)s}, Cross)", "%(s)s, ({%(t)s})", "{%(t)s}", "%(s)s,{%(t)s}",
             "({%(t)s}, (%(s)s, {%(t)s}))"]
RAW_WITNESS = [
    {"sidecar": {"resp": {"HED": {"k1": "Red, {val}", "k2": "(Blue, {val})"}}, "val": {"HED": "Label/#"}},
     "header": ["onset", "val", "resp", "HED"],
     "rows": [["1.0", "x1", "k1", "Green"], ["2.5", "n/a", "k2", "n/a"], ["3.0", "x1", "zz", "Red, Red"]]},
    {"sidecar": {"b": {"HED": {"k1": "Red", "k2": "Greenish"}}, "a": {"HED": "Item-count/#"}, "c": {"Description": "x"}},
     "header": ["b", "trial", "a", "c"], "rows": [["k1", "1", "3", "u"], ["k2", "2", "abc", "v"], ["", "3", "", "w"]]},
    {"sidecar": {"a": {"HED": {"k1": "(Def/A, Onset, {b})", "k2": "(Def/A, Offset)"}}, "b": {"HED": {"k1": "(Green)", "k2": "Blue"}}},
     "header": ["onset", "a", "b"], "rows": [["2.0", "k2", "k2"], ["1.0", "k1", "k1"], ["n/a", "k1", "k2"]]},
    {"sidecar": {"e": {"HED": {"go": "(Delay/1 s, Def/A, Onset)", "in": "(Def/A, Inset)"}}},
     "header": ["onset", "e"], "rows": [["1.0", "go"], ["1.5", "in"], ["3.0", "in"]]},
    {"sidecar": {"e": {"HED": {"off": "(Delay/# s, Def/A, Offset)", "on": "(Def/A, Onset, (Red))", "in": "(Def/A, Inset)"}},
                 "d": {"HED": "(Delay/# ms, (Label/x, {e}))"}},
     "header": ["e", "onset", "d"], "rows": [["in", "3.5", "500"], ["on", "1.0", "n/a"], ["in", "3.0", "250"]]},
    {"sidecar": {"defs": {"HED": {"d1": "(Definition/Mk/#, (Label/#))", "d2": "(Definition/A, (Green))"}},
                 "e": {"HED": {"go": "Def/Mk/3", "no": "Def/Mk", "ex": "(Def-expand/A, (Red))"}}},
     "header": ["e", "HED"], "rows": [["go", "Def/Mk/x1"], ["no", "(Def-expand/A, (Green))"], ["ex", "Def/Nope"]]},
    {"sidecar": {"v": {"HED": "(Delay/# s, (Blue, Blue)), (Delay/2 s, (Red))"}},
     "header": ["onset", "v", "HED"], "rows": [["1.0", "1", "Green"], ["0.5", "0.5", "n/a"]]},
]


def gen_pair(rng, g):
    """a (sidecar, events table) pair: raw inputs only"""
    names = rng.sample(RAW_NAMES, rng.randint(1, 3))
    has_onset = rng.random() < 0.55
    uid = [rng.randint(0, 10 ** 6) * 10]

    def frag():
        uid[0] += 1
        return fragment(rng, g, uid[0], has_onset)
    sc, kinds = {}, {}
    for n in names:
        k = rng.choices(["categorical", "value", "ignored", "untyped"], [6, 4, 1, 1])[0]
        kinds[n] = k
        if k == "categorical":
            keys = ["k1", "k2", "k3"][:rng.randint(1, 3)]
            sc[n] = {"HED": {key: frag() for key in keys}}
            if rng.random() < 0.3:
                sc[n]["Levels"] = {key: "level " + key for key in keys}
        elif k == "value":
            sc[n] = {"HED": rng.choice(RAW_VALUE), "Description": "d"}
        elif k == "ignored":
            sc[n] = rng.choice([{"Description": "x"}, {"Levels": {"k1": "a"}}, {}])
        else:
            sc[n] = rng.choice([{"HED": "Red"}, {"HED": {"k1": 5, "k2": "Red"}}, {"HED": 5}])
    typed = [n for n in names if kinds[n] in ("categorical", "value")]
    has_hed = rng.random() < 0.5
    if len(typed) + has_hed >= 2 and typed and rng.random() < 0.6:        # curly-brace references
        host = rng.choice(typed)
        cand = [n for n in typed if n != host] + (["HED"] if has_hed else []) + (["ghost"] if rng.random() < 0.1 else [])
        targets = rng.sample(cand, min(len(cand), rng.choice([1, 1, 1, 2])))
        for t in targets:
            form = rng.choice(RAW_FORMS)
            h = sc[host]["HED"]
            if isinstance(h, str):
                sc[host]["HED"] = form % {"t": t, "s": h}
            else:
                for i, key in enumerate(h):
                    if i == 0 or rng.random() < 0.5:
                        h[key] = form % {"t": t, "s": rng.choice(["Circle", "Triangle", "(Circle, Triangle)", "Cross"])}
    declares = rng.random() < 0.3          # the sidecar declares definitions; entries and cells use them (rightly and wrongly)
    if declares:
        from harness.props import closed_c08
        dcol = {"HED": {k: closed_c08.def_entry(rng) for k in rng.sample(["d1", "d2", "d3"], rng.randint(1, 3))}}
        items = list(sc.items())
        items.insert(rng.randint(0, len(items)), ("defs", dcol))
        sc = dict(items)
        kinds["defs"] = "categorical"
        for n in names:
            if kinds[n] == "categorical":
                for key in list(sc[n]["HED"]):
                    if rng.random() < 0.4:
                        sc[n]["HED"][key] = rng.choice(closed_c08.DEF_USERS)
        if rng.random() < 0.35:
            names = names + ["defs"]           # the definition column is (wrongly) a column of the file as well
    header = [n for n in names if rng.random() < 0.93]
    if has_hed:
        header.append("HED")
    if has_onset:
        header.append("onset")
    header += rng.sample(["duration", "trial", "sample"], rng.randint(0, 2))
    if not header:
        header = ["trial"]
    rng.shuffle(header)
    nrows = rng.randint(1, 5)
    onsets = rng.sample(range(1, 80), nrows)
    if rng.random() < 0.5:
        onsets.sort()
    rows = []
    for r in range(nrows):
        row = []
        for c in header:
            u = rng.random()
            if c == "onset":
                row.append("n/a" if u < 0.06 else str(onsets[r] / 8) if u < 0.8 else str(onsets[r] * 8 // 8 if onsets[r] % 8 == 0
                                                                                         else onsets[r] / 8))
            elif c == "HED":
                if declares and u < 0.3:
                    from harness.props import closed_c08
                    row.append(rng.choice(closed_c08.DEF_USERS))
                else:
                    row.append(frag() if u < 0.6 else rng.choice(["n/a", ""]))
            elif kinds.get(c) == "categorical":
                row.append(rng.choice(list(sc[c]["HED"])) if u < 0.7 else rng.choice(["n/a", "", "zz", "N/A"]))
            elif kinds.get(c) == "value":
                row.append(rng.choice(["3", "abc", "7.5", "x1", "0.5", "250"]) if u < 0.65 else rng.choice(["n/a", "", "3 4", "a#b"]))
            elif kinds.get(c) == "untyped":
                row.append(rng.choice(["Red", "Blue", "Greenish", "k1"]) if u < 0.6 else rng.choice(["n/a", ""]))
            else:
                row.append(rng.choice(["k1", "x", "n/a", "", "4"]))
        rows.append(row)
    return {"sidecar": sc, "header": header, "rows": rows}


def observe_pair(su, pair):
    import io
    import pandas as pd
    from hed import TabularInput, Sidecar
    try:
        sc = Sidecar(io.StringIO(json.dumps(pair["sidecar"])))
        df = pd.DataFrame(pair["rows"], columns=pair["header"], dtype=str)
        data = TabularInput(df, sidecar=sc, name="gen")
        issues = data.validate(su.real.schema, extra_def_dicts=su.real.dd)
    except Exception as e:
        return {"exc": type(e).__name__, "msg": str(e)[:200]}
    out = []
    for i in issues:
        col = i.get("ec_column")
        out.append([i["code"] + ":" + str(i.get("_kind")), i["severity"], i.get("ec_row"), None if col is None else str(col)])
    return {"issues": out, "columns": [str(c) for c in data.dataframe_a.columns]}


def run_closed_raw(ctx, su, pairs=None):
    """third stream: the model side is computed from the raw (sidecar, table) pair alone (`Tabular.validateClosedRaw`)"""
    import time
    from harness.props import c06
    t0 = time.time()
    rng = ctx.rng
    if pairs is None:
        n = 260 if ctx.quick() else 3500
        pairs = list(RAW_WITNESS) + [gen_pair(rng, su.gen) for _ in range(n)]
    texts = [json.dumps(p, ensure_ascii=False) for p in pairs]
    reqs = [{"sidecar": [[c, c06.enc(e)] for c, e in p["sidecar"].items()], "header": p["header"], "rows": p["rows"],
             "maskByRow": su.variant["maskByRow"], "guardDelay": su.variant["guardDelay"]} for p in pairs]
    ans = []
    for lo in range(0, len(reqs), 500):
        a = ctx.model.batch([dict(su.env(texts), op="closed.c07raw", pairs=reqs[lo:lo + 500])])[0]
        if "bad-op" in a:
            raise RuntimeError("driver: " + str(a["bad-op"]))
        ans += a["answers"]
    for pair, m in zip(pairs, ans):
        case = {"closed": "raw", "pair": pair}
        ctx.count("closed-raw:pairs")
        if "unmodelled" in m:
            ctx.count("closed-raw:skipped-unmodelled:" + m["unmodelled"])
            continue
        obs = observe_pair(su, pair)
        cells = sum(1 for r in pair["rows"] for x in r if x and x != "n/a")
        ctx.case(("closed-raw", json.dumps(pair, sort_keys=True)), nontrivial=len(pair["rows"]) >= 2 and cells >= 2)
        if "exc" in m or "exc" in obs:
            ctx.count("closed-raw:compared-exception")
            if m.get("exc") != obs.get("exc"):
                ctx.disagree("Tabular.validateClosedRaw = TabularInput(file, sidecar).validate (exception)", case,
                             m.get("exc", "issues"), obs.get("exc", "issues"))
            continue
        has_onset = "onset" in pair["header"]
        from harness.props.c08 import _walk_strings
        refs = any("{" in x for x in _walk_strings(pair["sidecar"]))
        ctx.count("closed-raw:compared" + ("-onset" if has_onset else ""))
        if "definition/" in json.dumps(pair["sidecar"]).casefold():
            ctx.count("closed-raw:compared-sidecar-declares-definitions")
            ctx.count("closed-raw:definitions-accepted", len(m.get("defs", [])))
        if "delay/" in json.dumps(pair).casefold():
            ctx.count("closed-raw:compared-with-Delay" + ("-onset" if has_onset else ""))
        if m.get("split"):
            ctx.count("closed-raw:compared-with-malformed-cell-in-checked-row")
        if refs:
            ctx.count("closed-raw:compared-with-refs")
        if m["columns"] != obs["columns"]:
            ctx.disagree("Raw.aColumns = dataframe_a.columns", case, m["columns"], obs["columns"])
        classes = c07.classes_of([(t, r) for t, r in m.get("parts", [])], len(pair["rows"])) if has_onset else []
        if len(set(classes)) < len(classes):
            ctx.count("closed-raw:compared-with-equal-time-rows")
        mine = c07.canon_obs([i[:4] for i in m["issues"]], classes, 2, has_onset)
        impl = c07.canon_obs(obs["issues"], classes, 2, has_onset)
        for i in m["issues"]:
            ctx.count("closed-raw:src-" + i[4])
        if mine != impl:
            ctx.disagree("Tabular.validateClosedRaw = TabularInput(file, sidecar).validate (complete kind, severity, ec_row, "
                         "ec_column list)", case, [x for x in mine if x not in impl][:6] or mine[:12],
                         [x for x in impl if x not in mine][:6] or impl[:12])
        if time.time() - t0 > RAW_BUDGET_S and ctx.quick():
            ctx.count("closed-raw:stopped-at-budget")
            break
    ctx.extra["closed_raw_rule"] = ("raw closed mode: sidecars of 1-3 columns (categorical / value / ignored / untyped), entries from "
                                    "the closed-mode fragments, curly-brace references (7 spellings, to columns, HED and a missing "
                                    "name), tables of 1-5 rows with HED / onset / duration / unknown columns in shuffled order, "
                                    "n/a and empty cells, unknown keys; the model sees the sidecar JSON and the raw cells only")
    ctx.check_time()
