"""C07, closed mode — the whole pipeline file -> issues inside Lean.

`closed.c07` (lean/HedVerif/Driver/Closed.lean) runs `Tabular.validateClosed`: the file model of C07 with its string-level
oracles instantiated by the string-validator model of C01 (`Validate`, lean/HedVerif/Model/Closed.lean).  One
self-contained request carries the schema environment (our own XML reading, as in c01.py), the definition dictionary and
the tables; nothing is recorded from the real validator.  The answer is compared with the real
`TabularInput/SpreadsheetInput.validate`: exception class, or the complete sorted (kind, severity, ec_row, ec_column) list.
Tables holding a string outside the C01 model's fragment (a `Delay/` group, an unsupported value-class pattern, a string
on which the real validator raises) are answered `unmodelled`: skipped and counted.
"""
import json

from harness.props import c01, c07
from harness.props.c10 import render_marker, KINDS, NAMES

BUDGET_S = 30
FULL_ONLY = c07.FULL_ONLY + ["(Onset, Red)", "(Def/A, Onset, (Green), (Blue))", "(Def/C, Onset)", "(Def/A, Def/B, Onset)",
                             "Onset", "(Duration/3 s, Red, (Blue))", "((Red, Blue), (Blue, Red))", "(Def-expand/A, (Red))",
                             "(Def-expand/A, (Blue))", "(Def/B, Offset, (Green))", "(Inset, Def/A)"]
INVALID = [x for x in c07.INVALID] + ["Def/Zed", "Def/C", "Def/A/3", "Red/", "Red, , Blue", "(Red))", "Re~d", "Label/a#b",
                                       "Item-count/abc", "Definition/X", "Event", "Train/Blue", "Label/#", "(Item-count/#, Red)", "Def/C/#"]
INJECT = ["unknown_tag", "forbidden_extension", "missing_required_child", "bad_unit", "bad_value", "repeated_tag",
          "repeated_group", "misplaced_tag_group", "misplaced_top_level", "several_top_level", "empty_delimiter",
          "undeclared_def", "wrong_def_value", "altered_def_expand", "duplicated_unique"]


class Setup:
    """the two sides: the real validator with the c01 definition dictionary, and the model's environment"""

    def __init__(self, ctx):
        from hed.models import DefinitionDict
        from hed.schema.hed_schema_entry import pluralize
        from hed.validator.hed_validator import HedValidator
        self.real = c07.Real()
        self.v = c01.Vocab("8.3.0", pluralize.plural)
        self.v.defs = c01.defs_for(self.v)
        dd = DefinitionDict(c01.defs_string(self.v.defs), self.real.schema)
        if dd.issues or len(dd.defs) != len(self.v.defs):
            raise RuntimeError(f"the harness's own definitions are not accepted: {dd.issues}")
        self.real.dd = dd
        self.real.hv = HedValidator(self.real.schema, def_dicts=dd)
        self.variant = c07.detect_variant(self.real)
        self.gen = c01.Gen(ctx.rng, self.v, pluralize.plural)

    def env(self, texts):
        chars = sorted({c for t in texts for c in t if ord(c) > 127})
        return dict(self.v.payload(chars), **c01.detect_variant(), ns="")


def fragment(rng, g, uid, has_onset):
    x = rng.random()
    if x < 0.30:
        return rng.choice(c07.VALID)
    if x < 0.50:
        for _ in range(6):          # the long-form spellings of deep tags make long strings: keep cells short
            t = g.render(g.conforming(False))
            if len(t) <= 90:
                return t
        return rng.choice(c07.VALID)
    if x < 0.58:
        return rng.choice(INVALID)
    if x < 0.66:
        kind = rng.choice(INJECT)
        try:
            t = g.inject(kind, g.conforming(False), False) if kind in c01.SPEC else None
            t = t if t and len(t) <= 140 else None
        except Exception:
            t = None
        return t if t else rng.choice(INVALID)
    if x < 0.80:
        return rng.choice(FULL_ONLY)
    if x < 0.84:
        return f"(Duration/{rng.choice([1, 2.5, 30])} {rng.choice(['s', 'ms', 'seconds'])}, (Label/d{uid}))"
    return render_marker(rng.choice(KINDS), rng.choice(NAMES), uid)


def gen_table(rng, g, variant):
    modes = ["tabular", "tabular", "sidecar", "sheet"] + (["sheet_nohdr"] if variant["sortKeyFixed"] else [])
    mode = rng.choice(modes)
    n = rng.randint(1, 6)
    has_onset = mode in ("tabular", "sidecar") and rng.random() < 0.6
    ncols = 1 if mode == "tabular" else rng.randint(1, 3)
    onsets = None
    if has_onset:       # pairwise distinct (no merged time points: the sort's tie order is not an observable), some n/a
        onsets = rng.sample(range(1, 80), n)
        if rng.random() < 0.5:
            onsets.sort()
        if rng.random() < 0.2:
            onsets[rng.randrange(n)] = None
    uid = [rng.randint(0, 10 ** 6) * 10]

    def cell():
        if rng.random() < 0.2:
            return rng.choice(["n/a", ""])
        parts = []
        for _ in range(rng.choice([1, 1, 2])):
            uid[0] += 1
            parts.append(fragment(rng, g, uid[0], has_onset))
        return ", ".join(parts)
    cols = [[cell() for _ in range(n)] for _ in range(ncols)]
    spec = {"mode": mode, "onsets": onsets, "cols": cols, "sidecar": None}
    if mode == "sidecar":
        sc = {}
        if ncols >= 2:
            keys = {k: fragment(rng, g, uid[0] + 100 + i, has_onset) for i, k in enumerate(["a", "b", "c"])}
            cols[1] = [rng.choice(list(keys) + ["n/a", "zz"]) for _ in range(n)]
            sc["cat"] = {"HED": keys}
        if ncols >= 3:
            cols[2] = [rng.choice(["n/a", "v1", "w 3", "7"]) for _ in range(n)]
            sc["val"] = {"HED": rng.choice(["Label/#", "(Duration/# s, (White))", "Item-count/#", "(Label/#, Age/#)"])}
        spec["sidecar"] = sc
    return spec


WITNESS = [  # a row whose only error sits in a cell other than the last: still gets the full checks (`new_column_issues`)
    {"mode": "sheet", "onsets": None, "cols": [["Greenish", "Red"], ["Blue, Blue", "(Red, Onset)"]], "sidecar": None},
    {"mode": "tabular", "onsets": [8, 16, 24], "cols": [["(Def/A, Onset)", "(Def/A, Inset), (Def/B, Offset)", "(Def/a, Offset)"]],
     "sidecar": None},
    {"mode": "tabular", "onsets": [24, 8], "cols": [["(Def/C/1, Offset)", "(Def/C/1, Onset, (Red)), Red, Red"]], "sidecar": None},
]


def run_closed(ctx, specs=None):
    import time
    t0 = time.time()
    su = Setup(ctx)
    real, rng = su.real, ctx.rng
    if specs is None:
        n = 420 if ctx.quick() else 4000
        specs = list(WITNESS) + [gen_table(rng, su.gen, su.variant) for _ in range(n)]
    reqs = [real.request(s, su.variant) for s in specs]
    texts = [x for rq in reqs for r in rq["rows"] for x in r["cells"]]
    ans = []
    for lo in range(0, len(reqs), 500):
        a = ctx.model.batch([dict(su.env(texts), op="closed.c07", tables=reqs[lo:lo + 500])])[0]
        if "bad-op" in a:
            raise RuntimeError("driver: " + str(a["bad-op"]))
        ans += a["answers"]
    for spec, rq, m in zip(specs, reqs, ans):
        case = {"closed": True, "spec": spec}
        ctx.count("closed:tables")
        if "unmodelled" in m:
            ctx.count("closed:skipped-unmodelled")
            continue
        obs = real.observe(spec)
        cells = sum(1 for r in rq["rows"] for x in r["cells"] if x and x != "n/a")
        ctx.case(("closed", json.dumps(spec, sort_keys=True)), nontrivial=len(rq["rows"]) >= 2 and cells >= 2)
        if "exc" in m or "exc" in obs:
            ctx.count("closed:compared-exception")
            if m.get("exc") != obs.get("exc"):
                ctx.disagree("Tabular.validateClosed = validate (exception)", case, m.get("exc", "issues"),
                             obs.get("exc", "issues"))
            continue
        mine = c07.canon_obs([i[:4] for i in m["issues"]], [], rq["rowAdj"], rq["hasOnset"])
        impl = c07.canon_obs([i["k"] for i in obs["issues"]], [], rq["rowAdj"], rq["hasOnset"])
        ctx.count("closed:compared" + ("-onset" if rq["hasOnset"] else ""))
        for i in m["issues"]:
            ctx.count("closed:src-" + i[4])
        if any(i[4] == "row" for i in m["issues"]):
            ctx.count("closed:tables-with-row-level-issue")
        if mine != impl:
            ctx.disagree("Tabular.validateClosed = validate (complete kind, severity, ec_row, ec_column list)", case,
                         [x for x in mine if x not in impl][:6], [x for x in impl if x not in mine][:6])
        if time.time() - t0 > BUDGET_S and ctx.quick():
            ctx.count("closed:stopped-at-budget")
            break
    ctx.extra["closed_rule"] = ("closed mode: 1-6 rows, 1-3 HED-bearing columns, cells from c01's conforming / injected-fault "
                                "generator on 8.3.0, c07's fragments, Def/Def-expand uses, Duration groups and temporal markers "
                                "(no Delay), distinct onsets; string validation computed by Validate inside Lean")
    ctx.check_time()
