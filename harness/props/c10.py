"""C10 — Onset/Offset/Inset bookkeeping follows the event history exactly.

Correspondence: (a) marker level — the real `OnsetValidator.validate_temporal_relations` on HedStrings,
one per time point, against `Temporal.run`; (b) file level — `TabularInput.validate` on an events frame
(equal-onset rows, Delay shifts) against `Temporal.timePoints` + `run`.  (c) group level — `DefValidator.validate_onset_offset` (directly
and through `HedString.validate`) on generated well- and malformed temporal groups against
`Temporal.validateOnsetOffset`.  Direct oracle: a set-based reference of the property statement evaluated on
the implementation's output.
"""
import itertools
import json

THEOREMS = [
    "HedVerif.C10.refines",
    "HedVerif.C10.open_iff_last_onset",
    "HedVerif.C10.errors_belong_to_markers",
    "HedVerif.C10.onsets_never_error",
    "HedVerif.C10.case_insensitive",
    "HedVerif.C10.timePoints_strict",
    "HedVerif.C10.timePoints_content",
    "HedVerif.C10.sortRows_stable",
    "HedVerif.C10.timePoints_markers_order",
    "HedVerif.C10.increasing_unique",
    "HedVerif.C10.timePoints_spec",
    "HedVerif.C10.permutation_invariant",
    "HedVerif.C10.run_permutation_invariant",
    "HedVerif.C10.timePoints_orig",
    "HedVerif.C10.shape_ok_iff",
    "HedVerif.C10.no_def_kind",
    "HedVerif.C10.too_many_kind",
    "HedVerif.C10.wrong_number_kind",
    "HedVerif.C10.offset_inner_group_kind",
    "HedVerif.C10.unknown_def_kind",
    "HedVerif.C10.not_temporal_no_issue",
    "HedVerif.C10.warning_rows_participate",
    "HedVerif.C10.no_error_all_participate",
    "HedVerif.C10.error_rows_skipped",
    "HedVerif.C10.delay_uses_own_onset",
    "HedVerif.C10.file_errors_permutation_invariant",
]
BUDGET = {"quick": 900, "thorough": 3600}

DEFS = "(Definition/A, (Red)), (Definition/B, (Blue)), (Definition/C/#, (Label/#))"
NAMES = ["A", "a", "B", "C/1", "C/2", "c/1"]
KINDS = ["onset", "offset", "inset"]
KIND_TAG = {"onset": "Onset", "offset": "Offset", "inset": "Inset"}
TEMPORAL_KINDS = {"ONSET_SAME_DEFS_ONE_ROW", "OFFSET_BEFORE_ONSET", "INSET_BEFORE_ONSET"}


SHAPE_KINDS = {"ONSET_NO_DEF_TAG_FOUND", "ONSET_TOO_MANY_DEFS", "ONSET_WRONG_NUMBER_GROUPS",
               "ONSET_TAG_OUTSIDE_OF_GROUP", "ONSET_DEF_UNMATCHED", "ONSET_PLACEHOLDER_WRONG"}
DEF_TABLE = [["a", False], ["b", False], ["c", True]]          # folded name -> takes_value (DEFS above)
DEF_EXTS = ["A", "a", "B", "C/1", "c/2", "A", "B", "C/1", "C", "A/2", "Zed"]
DEF_CONTENT = {"a": "(Red)", "b": "(Blue)", "c": "(Label/{v})"}


def install_kind_recorder():
    """Harness-side instrumentation: keep the internal error kind on every issue (key `_kind`)."""
    from hed.errors.error_reporter import ErrorHandler
    if getattr(ErrorHandler, "_verif_wrapped", False):
        return
    orig = ErrorHandler.format_error

    def fe(error_type, *a, **k):
        r = orig(error_type, *a, **k)
        for i in r:
            i["_kind"] = error_type
        return r
    ErrorHandler.format_error = staticmethod(fe)
    ErrorHandler._verif_wrapped = True


def render_marker(kind, name, uid, delay=None, unit=True, ext_inner=False):
    parts = []
    if delay is not None:
        parts.append(f"Delay/{delay / 8}" + (" s" if unit else ""))     # no unit: UNITS_MISSING (warning)
    parts += [f"Def/{name}", KIND_TAG[kind]]
    if kind != "offset":
        # distinct inner content: no TAG_EXPRESSION_REPEATED between markers; an extended tag draws TAG_EXTENDED
        parts.append(f"(Red/Crimsonish{uid})" if ext_inner else f"(Label/u{uid})")
    return "(" + ", ".join(parts) + ")"


# decorations of a file row: what they add to the cell and the severity of the cell issue they draw in
# the row-by-row checks (`run_basic_checks`); known by construction, not taken from the implementation
DECO_SEV = {"ext_top": "warning", "ext_inner": "warning", "style": "warning", "delay_nounit": "warning",
            "bad_tag": "error", "bad_def": "error"}
WARN_DECOS = ["ext_top", "ext_inner", "style", "delay_nounit"]
ERR_DECOS = ["bad_tag", "bad_def"]


def row_sevs(r):
    """severities of the cell issues the row's decorations draw (a decoration that finds nothing to decorate
    draws nothing)"""
    out = []
    for d in r.get("deco", []):
        if d == "ext_inner" and not any(k != "offset" for k, _ in r["markers"] + [m for _, ms in r["delayed"] for m in ms]):
            continue
        if d == "delay_nounit" and not r["delayed"]:
            continue
        out.append(DECO_SEV[d])
    return out


def row_has_error(r):
    return "error" in row_sevs(r)


def ref_run(history):
    """The property statement as a reference: per time point, per marker."""
    open_, out = set(), []
    for t, ms in enumerate(history):
        used = set()
        for i, (kind, name) in enumerate(ms):
            key = name.casefold()
            if key in used:
                out.append([t, i, "ONSET_SAME_DEFS_ONE_ROW"])
                continue
            used.add(key)
            if kind == "onset":
                open_.add(key)
            elif key not in open_:
                out.append([t, i, "OFFSET_BEFORE_ONSET" if kind == "offset" else "INSET_BEFORE_ONSET"])
            elif kind == "offset":
                open_.discard(key)
    return out


def impl_marker_level(history, schema, dd):
    from hed import HedString
    from hed.validator.onset_validator import OnsetValidator
    ov = OnsetValidator()
    out = []
    uid = 0
    for t, ms in enumerate(history):
        strs = []
        for kind, name in ms:
            uid += 1
            strs.append(render_marker(kind, name, uid))
        hs = HedString(",".join(strs), schema, dd)
        for iss in ov.validate_temporal_relations(hs):
            out.append([t, iss["_kind"]])
    return out


def gen_history(rng, max_points, max_markers):
    return [[(rng.choice(KINDS), rng.choice(NAMES)) for _ in range(rng.randint(0, max_markers))]
            for _ in range(rng.randint(1, max_points))]


def order_sensitive(rows):
    """True if two *different* frame rows with the same effective time use the same folded name.
    pandas' default sort is not stable (numpy SIMD quicksort), so the order of such rows inside the merged
    time point is unspecified; the model assumes frame order.  Such files are not generated at file level
    (same-name markers in one time point are covered inside one row and at marker level)."""
    seen = {}
    fr = 0
    for r in rows:
        groups = [(r["time"], r["markers"])] + [(r["time"] + d, ms) for d, ms in r["delayed"]]
        for tm, ms in groups:
            fr += 1
            for _, name in ms:
                key = (tm, name.casefold())
                if seen.setdefault(key, fr) != fr:
                    return True
    return False


def eff_times(r):
    return {r["time"]} | {r["time"] + d for d, _ in r["delayed"]}


def error_row_shares_time(rows):
    """A row with an error-severity cell issue shares an effective time with another row: then the merged time
    point is kept or skipped as a whole according to which row comes first (C07's merged-row finding); the
    generator keeps error rows on times of their own."""
    for i, r in enumerate(rows):
        if row_has_error(r) and any(eff_times(r) & eff_times(q) for j, q in enumerate(rows) if j != i):
            return True
    return False


def gen_rows(rng, nrows):
    while True:
        rows = _gen_rows(rng, nrows)
        if not order_sensitive(rows) and not error_row_shares_time(rows):
            return rows


def _gen_rows(rng, nrows):
    rows, t = [], rng.randint(0, 8)
    for _ in range(nrows):
        if rng.random() < 0.7:
            t += rng.randint(1, 12)
        ms = [[rng.choice(KINDS), rng.choice(NAMES)] for _ in range(rng.choice([0, 1, 1, 1, 2, 2, 3]))]
        dl = [[rng.choice([4, 8, 12, 16, 20]), [[rng.choice(KINDS), rng.choice(NAMES)]]]
              for _ in range(rng.choice([0, 0, 0, 1, 1, 2]))]
        deco = []
        x = rng.random()
        if x < 0.35:
            deco = rng.sample(WARN_DECOS, rng.choice([1, 1, 2]))
        elif x < 0.47:
            deco = [rng.choice(ERR_DECOS)] + ([rng.choice(WARN_DECOS)] if rng.random() < 0.4 else [])
        rows.append({"time": t, "markers": ms, "delayed": dl, "deco": deco})
    return rows


def rows_to_frame(rows):
    import pandas as pd
    uid = 0
    onsets, heds = [], []
    for r in rows:
        deco = r.get("deco", [])
        cell = []
        ext_inner = "ext_inner" in deco          # the first Onset/Inset group of the row gets an extended tag inside
        nounit = "delay_nounit" in deco          # the first Delay of the row is written without units
        for kind, name in r["markers"]:
            uid += 1
            cell.append(render_marker(kind, name, uid, ext_inner=ext_inner and kind != "offset"))
            ext_inner = ext_inner and kind == "offset"
        for d, ms in r["delayed"]:
            for kind, name in ms:
                uid += 1
                cell.append(render_marker(kind, name, uid, delay=d, unit=not nounit,
                                          ext_inner=ext_inner and kind != "offset"))
                ext_inner = ext_inner and kind == "offset"
                nounit = False
        uid += 1
        if "ext_top" in deco:
            cell.append(f"Red/Topcrimson{uid}")   # TAG_EXTENDED (warning)
        if "style" in deco:
            cell.append("red")                    # STYLE_WARNING
        if "bad_tag" in deco:
            cell.append(f"Zorkk{uid}")            # TAG_INVALID (error)
        if "bad_def" in deco:
            cell.append("Def/Nope")               # DEF_INVALID (error)
        onsets.append(str(r["time"] / 8))
        heds.append(", ".join(cell) if cell else "n/a")
    return pd.DataFrame({"onset": onsets, "duration": ["n/a"] * len(rows), "HED": heds})


def ref_file(rows, drop=row_has_error):
    """reference, from the property statement: the event history is made of all rows without an error-severity
    cell issue (a warning does not remove a row; a row with an error is left out together with its Delay groups);
    effective-time grouping (stable), then the set machine; label = first row of the group"""
    live = [k for k, r in enumerate(rows) if not drop(r)]
    flat = [(rows[k]["time"], k, list(map(tuple, rows[k]["markers"])), k) for k in live]
    extra = []
    for k in live:
        for d, ms in rows[k]["delayed"]:
            extra.append((rows[k]["time"] + d, len(rows) + len(extra), list(map(tuple, ms)), k))
    allr = sorted(flat + extra, key=lambda x: (x[0], x[1]))
    tps = []
    for tm, _, ms, orig in allr:
        if tps and tps[-1][0] == tm:
            tps[-1][1].extend(ms)
        else:
            tps.append([tm, list(ms), orig])
    errs = ref_run([tp[1] for tp in tps])
    return sorted([tps[t][2], k] for t, _, k in errs)


def impl_file(rows, schema, dd, warnings=True):
    from hed import TabularInput
    from hed.errors.error_reporter import ErrorHandler
    df = rows_to_frame(rows)
    before = df.copy()
    issues = TabularInput(df, name="gen").validate(schema, extra_def_dicts=dd,
                                                   error_handler=ErrorHandler(check_for_warnings=warnings))
    assert df.equals(before)
    other = sorted({i["code"] for i in issues if i.get("_kind") not in TEMPORAL_KINDS and i["severity"] == 1})
    errs = sorted([i["ec_row"] - 2, i["_kind"]] for i in issues if i.get("_kind") in TEMPORAL_KINDS)
    # severities of the row-by-row (cell) issues per row, to check the generator's bookkeeping of decorations
    cell = {}
    for i in issues:
        if i.get("_kind") not in TEMPORAL_KINDS and "ec_row" in i and i["code"] in CELL_CODES:
            cell.setdefault(i["ec_row"] - 2, set()).add("error" if i["severity"] == 1 else "warning")
    return errs, other, cell


CELL_CODES = {"TAG_EXTENDED", "STYLE_WARNING", "UNITS_MISSING", "TAG_INVALID", "DEF_INVALID"}


def file_request(rows):
    return {"op": "c10.file", "rows": [dict(time=r["time"], markers=r["markers"], delayed=r["delayed"],
                                            issues=row_sevs(r)) for r in rows]}


def check_history(ctx, history, model_errors, schema, dd):
    hist = [[list(m) for m in ms] for ms in history]
    try:
        impl = impl_marker_level(history, schema, dd)
    except Exception as e:
        ctx.violation("marker-level-raised", {"history": hist}, f"{type(e).__name__}: {e}")
        return
    nm = sum(len(ms) for ms in history)
    ctx.case(("h", tuple(map(tuple, history))), nontrivial=nm >= 2, sample={"history": hist} if nm >= 3 else None)
    m = [[t, k] for t, _, k in model_errors]
    for _, _, k in model_errors:
        ctx.count("model-" + k)
    if m != impl:
        ctx.disagree("Temporal.run = OnsetValidator.validate_temporal_relations", {"history": hist}, m, impl)
    ref = [[t, k] for t, _, k in ref_run(history)]
    if impl != ref:
        ctx.violation("unmatched-reported-iff-not-open", {"history": hist}, {"impl": impl, "expected": ref})


def check_file(ctx, rows, model, schema, dd):
    nm = sum(len(r["markers"]) + len(r["delayed"]) for r in rows)
    ctx.case(("f", json.dumps(rows)), nontrivial=nm >= 2, sample={"rows": rows} if nm >= 4 and len(rows) <= 4 else None)
    times = [r["time"] for r in rows]
    if times != sorted(times):
        ctx.count("file-out-of-time-order" + ("-with-delay" if any(r["delayed"] for r in rows) else ""))
        # would position-based onsets (row label read as a position of the sorted file) change the verdicts?
        order = sorted(range(len(rows)), key=lambda k: (times[k], k))
        wrong = [dict(r, delayed=[[d + times[order[k]] - r["time"], ms] for d, ms in r["delayed"]]) for k, r in enumerate(rows)]
        if sorted(k for _, k in ref_file(wrong)) != sorted(k for _, k in ref_file(rows)):
            ctx.count("file-verdicts-depend-on-delay-using-own-onset")
    ctx.count("file-timepoints-merged" if len(model["timepoints"]) < len(rows) + sum(len(r["delayed"]) for r in rows)
              else "file-no-merge")
    sevs = [row_sevs(r) for r in rows]
    has_marker = [bool(r["markers"] or r["delayed"]) for r in rows]
    if any(s and "error" not in s and h for s, h in zip(sevs, has_marker)):
        ctx.count("file-with-warning-only-marker-row")
    if any("error" in s and h for s, h in zip(sevs, has_marker)):
        ctx.count("file-with-error-marker-row")
    # oracle: verdicts per effective time group as the property states (labels are C07's clause)
    ref = ref_file(rows)
    if sorted(k for _, k in ref) != sorted(k for _, k in ref_file(rows, drop=lambda r: bool(row_sevs(r)))):
        ctx.count("file-verdicts-depend-on-warning-rows")
    if sorted(k for _, k in ref) != sorted(k for _, k in ref_file(rows, drop=lambda r: False)):
        ctx.count("file-verdicts-depend-on-error-rows-skipped")
    # the label of a merged time point is the first row in sorted order, which is unspecified for ties
    # (unstable sort): compare labels only for time points made of one original row, kinds everywhere
    amb = set(model["ambiguous_labels"])
    m = sorted([l, k] if l not in amb else [-1, k] for l, k in model["errors"])
    for warnings in (True, False):
        case = {"rows": rows, "check_for_warnings": warnings}
        try:
            impl, other, cell = impl_file(rows, schema, dd, warnings)
        except Exception as e:
            ctx.violation("file-validation-raised", case, f"{type(e).__name__}: {e}")
            return
        if other and warnings:
            ctx.count("file-other-error-codes:" + ",".join(other))
        # the generator's bookkeeping: which rows draw an error / only warnings in the row-by-row checks
        # (an error stops the row's basic checks early, so its warnings may not be reported: compare the worst severity)
        worst = lambda v: "error" if "error" in v else "warning"
        want_cell = {k: worst(s) for k, s in enumerate(sevs) if s and (warnings or "error" in s)}
        got_cell = {k: worst(v) for k, v in cell.items()}
        if got_cell != want_cell:
            ctx.disagree("decorations draw the stated cell issue severities", case, want_cell, got_cell)
        impl = sorted([l, k] if l not in amb else [-1, k] for l, k in impl)
        if sorted(k for _, k in m) != sorted(k for _, k in impl) or \
                [x for x in m if x[0] != -1] != [x for x in impl if x[0] != -1]:
            ctx.disagree("Temporal.fileErrors (timePoints, skipped rows, run) = TabularInput.validate temporal issues",
                         case, m, impl)
        if sorted(k for _, k in impl) != sorted(k for _, k in ref):
            ctx.violation("file-temporal-errors-follow-effective-times-of-rows-without-error", case,
                          {"impl": impl, "expected": ref})


# ---- per-group structural checks (DefValidator.validate_onset_offset) ----

def def_ok(ext):
    name, _, ph = ext.partition("/")
    tv = dict(DEF_TABLE).get(name.casefold())
    return tv is not None and tv == bool(ph)


def render_child(ch, uid):
    if ch[0] == "anchor":
        return KIND_TAG[ch[1]]
    if ch[0] == "def":
        return "Def/" + ch[1]
    if ch[0] == "delay":
        return "Delay/1 s"
    if ch[0] == "tag":
        return f"Label/t{uid}"
    if not ch[1]:
        return f"(Label/u{uid})"
    parts = []
    for e in ch[1]:
        name, _, ph = e.partition("/")
        parts += ["Def-expand/" + e, DEF_CONTENT.get(name.casefold(), "(Red)").format(v=ph or "1")]
    return "(" + ", ".join(parts) + ")"


def render_groups(groups):
    uid, out = 0, []
    for g in groups:
        cs = []
        for ch in g:
            uid += 1
            cs.append(render_child(ch, uid))
        out.append("(" + ", ".join(cs) + ")")
    return ", ".join(out)


def gen_group(rng):
    g = []
    r = rng.random()
    if r < 0.9:
        g.append(["anchor", rng.choice(KINDS)])
        if r < 0.05:
            g.append(["anchor", rng.choice(KINDS)])
    for _ in range(rng.choice([0, 1, 1, 1, 1, 2, 2, 3])):
        e = rng.choice(DEF_EXTS)
        if rng.random() < 0.6:
            g.append(["def", e])
        else:
            g.append(["group", [e] if rng.random() < 0.9 else [e, rng.choice(DEF_EXTS)]])
    for _ in range(rng.choice([0, 0, 1, 1, 1, 2, 3])):
        g.append(["group", []])
    for _ in range(rng.choice([0, 0, 0, 1, 2])):
        g.append(["tag"])
    if rng.random() < 0.25:
        g.append(["delay"])
    rng.shuffle(g)
    return g


def ref_shape(g):
    """the property's reading: exactly one Def/Def-expand, at most one inner group, none for Offset, known def"""
    anchors = [i for i, ch in enumerate(g) if ch[0] == "anchor"]
    if not anchors:
        return []
    carriers = [(e, i) for i, ch in enumerate(g) for e in ([ch[1]] if ch[0] == "def" else ch[1] if ch[0] == "group" else [])]
    if not carriers:
        return ["ONSET_NO_DEF_TAG_FOUND"]
    if len(carriers) > 1:
        return ["ONSET_TOO_MANY_DEFS"]
    ext, di = carriers[0]
    others = [ch for i, ch in enumerate(g) if i not in (di, anchors[0]) and ch[0] != "delay"]
    if len(others) > (0 if g[anchors[0]][1] == "offset" else 1):
        return ["ONSET_WRONG_NUMBER_GROUPS"]
    out = ["ONSET_TAG_OUTSIDE_OF_GROUP"] if others and others[0][0] != "group" else []
    name, _, ph = ext.partition("/")
    tv = dict(DEF_TABLE).get(name.casefold())
    if tv is None:
        out.append("ONSET_DEF_UNMATCHED")
    elif tv != bool(ph):
        out.append("ONSET_PLACEHOLDER_WRONG")
    return out


def check_shape(ctx, groups, model, schema, dd):
    from hed import HedString
    from hed.validator.def_validator import DefValidator
    text = render_groups(groups)
    case = {"groups": groups, "text": text}
    try:
        direct = [i["_kind"] for i in DefValidator(dd, schema).validate_onset_offset(HedString(text, schema, dd))]
        issues = HedString(text, schema, dd).validate(dd)
    except Exception as e:
        ctx.violation("temporal-group-check-raised", case, f"{type(e).__name__}: {e}")
        return
    ctx.case(("s", text), nontrivial=bool(model["kinds"]), sample=case if model["kinds"] and ctx.rng.random() < 0.02 else None)
    for k in model["kinds"]:
        ctx.count("shape-" + k)
    if direct != model["kinds"]:
        ctx.disagree("Temporal.validateOnsetOffset = DefValidator.validate_onset_offset", case, model["kinds"], direct)
    want = [k for g in groups for k in ref_shape(g)]
    if direct != want:
        ctx.violation("temporal-group-shape-kind", case, {"impl": direct, "expected": want})
    # through HedString.validate: a Def problem stops validation earlier (DEF_INVALID family); otherwise the
    # structural issues appear, all under code TEMPORAL_TAG_ERROR
    via = [i["_kind"] for i in issues if i.get("_kind") in SHAPE_KINDS]
    if any(i["code"] != "TEMPORAL_TAG_ERROR" for i in issues if i.get("_kind") in SHAPE_KINDS):
        ctx.violation("temporal-group-issue-code", case, [(i["code"], i["_kind"]) for i in issues])
    defs_all = [e for g in groups for ch in g for e in ([ch[1]] if ch[0] == "def" else ch[1] if ch[0] == "group" else [])]
    multi = any(ch[0] == "group" and len(ch[1]) > 1 for g in groups for ch in g)   # DEF_EXPAND_INVALID earlier
    if all(def_ok(e) for e in defs_all) and not multi:
        ctx.count("shape-via-validate-compared")
        if via != model["kinds"]:
            ctx.disagree("Temporal.validateOnsetOffset = ONSET_* kinds of HedString.validate", case, model["kinds"], via)
    elif not any(i["severity"] == 1 for i in issues):
        ctx.violation("bad-def-in-temporal-group-accepted", case, [(i["code"], i.get("_kind")) for i in issues])
    if want and not any(i["severity"] == 1 for i in issues):
        ctx.violation("malformed-temporal-group-accepted", case, [(i["code"], i.get("_kind")) for i in issues])


SHAPE_CORPUS = [
    [[["def", "A"], ["def", "B"], ["anchor", "onset"]]],                         # two Defs
    [[["anchor", "onset"], ["def", "A"], ["group", []], ["group", []]]],         # two inner groups
    [[["def", "A"], ["anchor", "offset"], ["group", []]]],                       # Offset with inner group
    [[["anchor", "onset"], ["group", []]]],                                      # no Def
    [[["anchor", "onset"], ["def", "A"], ["tag"]]],
    [[["anchor", "onset"], ["def", "Zed"]]],
    [[["anchor", "onset"], ["def", "C"]]],
    [[["anchor", "onset"], ["group", ["A"]], ["group", []]]],
    [[["anchor", "onset"], ["group", ["A"]], ["def", "B"]]],
    [[["anchor", "onset"], ["def", "A"], ["delay"], ["group", []]]],
    [[["anchor", "onset"], ["anchor", "inset"], ["def", "A"]]],
    [[["anchor", "inset"], ["def", "C/1"], ["tag"], ["tag"]]],
    [[["anchor", "onset"], ["def", "A"]], [["anchor", "offset"], ["def", "a"], ["group", []]]],
    [[["def", "Zed"], ["tag"], ["tag"]]],
]


def run_shapes(ctx, schema, dd):
    n = 500 if ctx.quick() else 8000
    cases = list(SHAPE_CORPUS) + [[gen_group(ctx.rng) for _ in range(ctx.rng.choice([1, 1, 1, 2, 3]))] for _ in range(n)]
    ans = ctx.model.batch([{"op": "c10.shape", "groups": g, "defs": DEF_TABLE} for g in cases])
    for g, a in zip(cases, ans):
        check_shape(ctx, g, a, schema, dd)
    ctx.check_time()


def run(ctx):
    from hed import load_schema_version
    from hed.models import DefinitionDict
    install_kind_recorder()
    schema = load_schema_version("8.3.0")
    dd = DefinitionDict(DEFS, schema)
    ctx.extra["rule"] = ("histories over {Onset,Offset,Inset} x {A,a,B,C/1,C/2,c/1}: exhaustive for short ones, random longer; "
                         "event frames with equal-onset rows and Delay shifts on a 1/8 s grid, rows decorated with warning-only cell issues "
                         "(extended tag beside/inside the temporal group, unitless Delay, lower-case tag: kept) or errors (unknown tag, "
                         "unknown Def: skipped, on times of their own), each validated with and without warnings; the same files out of time order (all row permutations for <= 4 rows of "
                         "files with Delay groups, one random permutation of the others); non-trivial = at least 2 markers; "
                         "temporal groups with 0-3 Def/Def-expand, 0-3 inner groups, extra tags, Delay, second anchors, unknown/valued defs "
                         "(non-trivial = the group is malformed)")
    # corpus
    corpus = [[[("onset", "A")], [("onset", "a"), ("offset", "A")], [("offset", "A"), ("inset", "B")]],
              [[("offset", "C/1")], [("onset", "C/1")], [("inset", "c/1"), ("offset", "C/2")]]]
    # exhaustive: all histories with <= n markers over 3 names x 3 kinds, every split into time points
    nmax = 3 if ctx.quick() else 4
    alphabet = [(k, n) for k in KINDS for n in ("A", "a", "B")]
    hists = list(corpus)
    for n in range(1, nmax + 1):
        for seq in itertools.product(alphabet, repeat=n):
            for cuts in itertools.product([0, 1], repeat=n - 1):
                h, cur = [], [seq[0]]
                for c, m in zip(cuts, seq[1:]):
                    if c:
                        h.append(cur)
                        cur = [m]
                    else:
                        cur.append(m)
                h.append(cur)
                hists.append(h)
    nrand = 1500 if ctx.quick() else 30000
    for _ in range(nrand):
        hists.append(gen_history(ctx.rng, 8, 3))
    for lo in range(0, len(hists), 4000):
        chunk = hists[lo:lo + 4000]
        ans = ctx.model.batch([{"op": "c10.run", "history": [[list(m) for m in ms] for ms in h]} for h in chunk])
        for h, a in zip(chunk, ans):
            check_history(ctx, h, a["errors"], schema, dd)
        ctx.check_time()
    ctx.extra["exhaustive_markers"] = nmax
    # file level
    nfiles = 400 if ctx.quick() else 6000
    files = [[{"time": 8, "markers": [["onset", "A"]], "delayed": [[8, [["offset", "a"]]]]},
              {"time": 16, "markers": [["inset", "A"]], "delayed": []}]]
    # a marker on a row with a warning-only issue (kept) / with an error (skipped), then a marker that depends on it
    for deco in WARN_DECOS + ERR_DECOS + ["ext_top,style", "bad_tag,ext_top"]:
        d = deco.split(",")
        files.append([{"time": 8, "markers": [["onset", "A"]], "delayed": [], "deco": d},
                      {"time": 16, "markers": [["inset", "a"]], "delayed": []},
                      {"time": 24, "markers": [["offset", "A"]], "delayed": []}])
        files.append([{"time": 8, "markers": [], "delayed": [[4, [["onset", "B"]]]], "deco": d},
                      {"time": 16, "markers": [["offset", "B"]], "delayed": []}])
        files.append([{"time": 8, "markers": [["onset", "C/1"]], "delayed": []},
                      {"time": 16, "markers": [["offset", "c/1"]], "delayed": [[8, [["inset", "B"]]]], "deco": d},
                      {"time": 32, "markers": [["offset", "C/1"]], "delayed": []}])
    for _ in range(nfiles):
        files.append(gen_rows(ctx.rng, ctx.rng.randint(1, 7)))
    # files out of time order: row permutations of the ordered files (the validator sorts them first and keeps the row
    # labels; a Delay group must still be shifted from its OWN row's onset).  All permutations for up to 4 rows of
    # the first files that carry a Delay group, one random permutation of every other file with at least 2 rows.
    nall = 25 if ctx.quick() else 250
    unordered = [[{"time": 16, "markers": [], "delayed": [[8, [["inset", "A"]]]]},
                  {"time": 8, "markers": [["onset", "a"]], "delayed": []},
                  {"time": 32, "markers": [["offset", "A"]], "delayed": []}],
                 [{"time": 40, "markers": [["inset", "B"]], "delayed": []},
                  {"time": 24, "markers": [], "delayed": [[4, [["offset", "B"]]]]},
                  {"time": 8, "markers": [["onset", "B"]], "delayed": []}]]
    for f in files:
        if len(f) < 2 or order_sensitive(f):      # equal-time rows using one name: tie order is pandas' business
            continue
        if nall > 0 and len(f) <= 4 and any(r["delayed"] for r in f):
            nall -= 1
            unordered += [list(p) for p in itertools.permutations(f)][1:]
        else:
            g = list(f)
            ctx.rng.shuffle(g)
            unordered.append(g)
    ctx.extra["unordered_files"] = len(unordered)
    files += unordered
    ans = ctx.model.batch([file_request(f) for f in files])
    for f, a in zip(files, ans):
        check_file(ctx, f, a, schema, dd)
        ctx.check_time()
    run_shapes(ctx, schema, dd)


def replay(ctx, rec):
    from hed import load_schema_version
    from hed.models import DefinitionDict
    install_kind_recorder()
    schema = load_schema_version("8.3.0")
    dd = DefinitionDict(DEFS, schema)
    case = rec.get("case") or (rec.get("disagreements") or [{}])[0].get("case")
    if not case:
        print("nothing to replay (obligation-only record):", rec.get("broken_obligations"))
        return
    if "groups" in case:
        a = ctx.model.batch([{"op": "c10.shape", "groups": case["groups"], "defs": DEF_TABLE}])[0]
        check_shape(ctx, case["groups"], a, schema, dd)
    elif "history" in case:
        h = [[tuple(m) for m in ms] for ms in case["history"]]
        a = ctx.model.batch([{"op": "c10.run", "history": case["history"]}])[0]
        check_history(ctx, h, a["errors"], schema, dd)
    else:
        a = ctx.model.batch([file_request(case["rows"])])[0]
        check_file(ctx, case["rows"], a, schema, dd)
    print("replayed", json.dumps(case)[:300])
