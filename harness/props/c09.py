"""C09 — Definitions expand to their declared content and shrink back losslessly.

Correspondence (model `Defs` vs the real code, same generated inputs):
  (a) acceptance — `DefinitionDict.check_for_definitions` per definition string: issue kinds per string and the
      final dictionary (key, name, takes_value, printed sorted content) against `Defs.acceptString`;
  (b) histories — sequences of expand_defs / shrink_defs / copy() / validate / str / sorted on ONE real HedString
      object: after every step `str(obj)` (or the exception class), the def-validator kinds for validate and the
      sorted printout for sorted, against `Defs.runG` / `validateDefs` / `sortG`;
  (c) the column-wise `df_util.expand_defs/shrink_defs` on Series and DataFrames against the string functions.
  (d) parent pointers: the model's `copyTag=false` variant against the real objects in a scratch copy of the
      package where `validate` hands the live tag to `get_definition` (all short histories over expand / shrink /
      validate / copy) — this is what ties the `Att` field of the model to `_parent` of real tags;
  (e) `process_def_expands` on cells with value-free Def-expand groups (known, unknown, conflicting, permuted,
      nested) against `Defs.gatherAll`, plus its own string-level reference (first content defines, a different
      one is reported and not merged).
Direct oracle (the property statement computed independently on strings with the harness's own parser):
  expected expansion by substitution from the definition text; expand twice = once; shrink after expand = original;
  every history equals the composition of the two string rewrites and never raises; copies are independent;
  a Def-expand group is accepted iff its content equals the expansion up to sibling order — in particular the
  group expand_defs() produces and every sibling permutation of it, for definitions whose placeholder has siblings
  equal to it up to the '#' text and values on both sides of them in the case-folded order; a definition that is
  accepted satisfies every listed condition and a duplicate is reported and ignored; gathered definitions
  (process_def_expands) of expanded strings agree with the dictionary.
"""
import itertools
import json

from harness.props.c10 import install_kind_recorder

THEOREMS = [
    "HedVerif.C09.accept_iff",
    "HedVerif.C09.accept_duplicate",
    "HedVerif.C09.accept_good",
    "HedVerif.C09.expand_spec",
    "HedVerif.C09.expand_idem",
    "HedVerif.C09.shrink_expand",
    "HedVerif.C09.shrink_expand_original",
    "HedVerif.C09.expand_shrink_history",
    "HedVerif.C09.expand_shrink_history_original",
    "HedVerif.C09.expand_twice_counterexample",
    "HedVerif.C09.defexpand_accept_iff",
    "HedVerif.C09.defexpand_order_counterexample",
    "HedVerif.C09.shrink_twice_keyerror_counterexample",
    "HedVerif.C09.shrink_total",
    "HedVerif.C09.validate_identity",
    "HedVerif.C09.validate_preserves_expand_shrink",
    "HedVerif.C09.validate_detach_counterexample",
    "HedVerif.C09.gather_match_silent",
    "HedVerif.C09.gather_conflict_reported",
    "HedVerif.C09.gather_new_valuefree",
    "HedVerif.C09.gather_mismatch_reported",
    "HedVerif.C09.gather_overwrite_counterexample",
    "HedVerif.C09.merge_first_wins",
    "HedVerif.C09.merge_duplicate_reported",
    "HedVerif.C09.merge_example",
    "HedVerif.C09.sort_perm",
    "HedVerif.C09.sortN_idem",
    "HedVerif.C09.sortG_idem",
    "HedVerif.C09.sortG_eraseL",
    "HedVerif.C09.newEntry_stored",
    "HedVerif.C09.sortG_perm_eqv_partial",
    "HedVerif.C09.sortG_eq_perm",
    "HedVerif.C09.defexpand_accept_sound",
    "HedVerif.C09.gather_roundtrip_step",
    "HedVerif.C09.gather_roundtrip",
    "HedVerif.C09.newEntry_valueFree",
    "HedVerif.C09.sortG_perm_partial",
    "HedVerif.C09.sortG_perm_needs_hypothesis",
    "HedVerif.C09.defexpand_perm_partial",
    "HedVerif.C09.acceptString_good",
]
BUDGET = {"quick": 900, "thorough": 3600}

OPS = ["expand", "shrink", "copy", "validate", "str", "sorted"]
DEF_KINDS = {"HED_DEF_UNMATCHED", "HED_DEF_EXPAND_UNMATCHED", "HED_DEF_VALUE_MISSING", "HED_DEF_EXPAND_VALUE_MISSING",
             "HED_DEF_VALUE_EXTRA", "HED_DEF_EXPAND_VALUE_EXTRA", "HED_DEF_EXPAND_INVALID"}

# ------------------------------------------------------------------------------------------ generators

GOOD_DEFS = [
    "(Definition/A, (Red, Blue))",
    "(Definition/B, (Green))",
    "(Definition/Nest, (Item, (Red, (Blue, Green)), (Circle)))",
    "(Definition/Spd/#, (Speed/# mph))",
    "(Definition/Lab/#, (Label/#, Red))",
    "(Definition/Acc/#, ((Acceleration/# m-per-s^2, Red), Blue))",
    "(Definition/E)",
    "(Definition/Em, ())",
    "(Definition/M1, (Square)), (Definition/M2/#, (ID/#, Circle))",
]
# every acceptance-rule violation (and the shapes that are silently ignored)
BAD_DEFS = [
    "(Definition/X1, (Red), (Blue))",              # more than one inner group
    "(Definition/X2/#)",                           # no group but '#'
    "(Definition/X3, Red, (Blue))",                # not exactly one tag
    "(Definition/X3b, Definition/X3c, (Red))",     # two definition tags
    "(Definition/X4/y, (Red))",                    # name with '/'
    "(Definition/X5/#/#, (Label/#))",              # name with '#'
    "(Definition/X6, (Def/A, Red))",               # Def inside
    "(Definition/X7, ((Def-expand/A, (Blue, Red))))",   # Def-expand inside
    "(Definition/X8, (Definition/Y, Red))",        # Definition inside
    "(Definition/X9, (Label/#))",                  # '#' without '/#'
    "(Definition/X10/#, (Red))",                   # '/#' without '#'
    "(Definition/X11/#, (Label/#, ID/#))",         # two placeholders
    "(Definition/X12, (Label/#, ID/#))",           # two placeholders, no '/#' (accepted by the code)
    "(Definition/X13/#, (Label/##))",              # two '#' in one tag
    "(Definition/X14/#, (Red/#))",                 # placeholder on a tag that takes no value
    "(Definition/X15, (Event-context, Red))",      # unique tag inside
    "((Definition/X16, (Red)))",                   # not top level: ignored
    "Definition/X17, Red",                         # not in a group: ignored
    "(Definition/a, (Green))",                     # duplicate of A up to case
    "(Definition/B, (Blue))",                      # duplicate of B
    "(Definition/X18, (Red)), (Definition/x18, (Blue))",   # duplicate inside one string
    "(Definition/X19, (Red, (Def/B)))",            # nested Def inside
]
PLAIN = ["Red", "Blue", "Green", "Item", "Circle", "Square", "Label/x1", "Speed/3 mph", "ID/k2", "Age/5"]
VALUE_TAGS = ["Label/#", "Speed/# mph", "ID/#", "Acceleration/# m-per-s^2", "Age/#"]
VALUES = ["3", "4.5", "77"]
DEF_NAMES = ["A", "B", "Nest", "Spd", "Lab", "Acc", "E", "Em", "M1", "M2", "R0", "R1", "R2"]


def render(tree, rng=None, top=True):
    sep = ", " if rng is None or rng.random() < 0.5 else ","
    parts = [t if isinstance(t, str) else render(t, rng, False) for t in tree]
    return sep.join(parts) if top else "(" + sep.join(parts) + ")"


def gen_content(rng, depth, leaves):
    n = rng.randint(1, 3)
    out = []
    for _ in range(n):
        if depth > 0 and rng.random() < 0.35:
            out.append(gen_content(rng, depth - 1, leaves))
        else:
            out.append(rng.choice(leaves))
    return out


def tags_in(tree):
    for t in tree:
        if isinstance(t, str):
            yield t
        else:
            yield from tags_in(t)


def put_placeholder(rng, tree):
    """replace one random tag leaf by a value tag with '#' (in place)"""
    paths = []

    def walk(node, path):
        for i, t in enumerate(node):
            if isinstance(t, str):
                paths.append(path + [i])
            else:
                walk(t, path + [i])
    walk(tree, [])
    p = rng.choice(paths)
    node = tree
    for i in p[:-1]:
        node = node[i]
    node[p[-1]] = rng.choice(VALUE_TAGS)


def gen_definition(rng, name):
    """a random definition string, mostly acceptable, sometimes violating one rule"""
    takes = rng.random() < 0.45
    content = gen_content(rng, 2, PLAIN)
    if takes:
        put_placeholder(rng, content)
    r = rng.random()
    ext = name + ("/#" if takes else "")
    if r < 0.70:
        return f"(Definition/{ext}, {render(content, rng, False)})"
    if r < 0.74:
        return f"(Definition/{ext})"
    if r < 0.78:
        put_placeholder(rng, content)     # one placeholder too many (or one without '/#')
        return f"(Definition/{ext}, {render(content, rng, False)})"
    if r < 0.82:
        return f"(Definition/{ext}, {render(content, rng, False)}, (Red))"
    if r < 0.86:
        return f"(Definition/{ext}, Blue, {render(content, rng, False)})"
    if r < 0.90:
        content.append(rng.choice(["Def/A", "Def-expand/B", "Definition/Q", ["Def/B", "Red"]]))
        return f"(Definition/{ext}, {render(content, rng, False)})"
    if r < 0.94:
        return f"(Definition/{name}/z{'/#' if takes else ''}, {render(content, rng, False)})"
    if r < 0.97:
        return f"({render(content, rng, False)}, Definition/{ext})"     # tag after the group: fine
    return f"(Definition/{ext}, ())"


def gen_defset(rng):
    r = rng.random()
    n = rng.choice([0, 1, 2, 2, 3, 3, 4])
    if r < 0.45:
        return rng.sample(GOOD_DEFS, min(n, len(GOOD_DEFS)))
    if r < 0.60:
        return rng.sample(GOOD_DEFS + BAD_DEFS, n)
    names = rng.sample(DEF_NAMES, n) if rng.random() < 0.8 else [rng.choice(DEF_NAMES[:4]) for _ in range(n)]
    return [gen_definition(rng, nm) for nm in names]


# ------------------------------------------------------------------------- independent string-level reference

def parse(text):
    """the harness's own reader: nested lists of trimmed tag strings"""
    stack, cur, buf = [], [], ""
    for ch in text:
        if ch in ",()":
            if buf.strip():
                cur.append(buf.strip())
            buf = ""
            if ch == "(":
                stack.append(cur)
                cur = []
            elif ch == ")":
                done = cur
                cur = stack.pop()
                cur.append(done)
        else:
            buf += ch
    if buf.strip():
        cur.append(buf.strip())
    assert not stack
    return cur


def canon(tree):
    """canonical form up to sibling order"""
    return tuple(sorted((("t", t) if isinstance(t, str) else ("g", canon(t))) for t in tree))


def low(t):
    return t.casefold()


def is_defish(t):
    b = low(t).split("/")[0]
    return b in ("def", "def-expand", "definition")


def ref_accept(def_strings, takes_value_tag, bad_prop_tag):
    """The property's acceptance conditions on strings.  Returns (dict key -> (name, takes, content tree or None),
    per string list of verdicts).  verdict: (name, 'ok'|'dup'|'rejected'|'gray', conditions_hold)."""
    defs, verdicts, taken = {}, [], set()
    for s in def_strings:
        vs = []
        for g in parse(s):
            if isinstance(g, str):
                continue
            dtags = [t for t in g if isinstance(t, str) and low(t).split("/")[0] == "definition"]
            if not dtags:
                continue
            dt = dtags[0]
            ext = dt.split("/", 1)[1] if "/" in dt else ""
            takes = ext.endswith("/#")
            name = ext[:-2] if takes else ext
            tags = [t for t in g if isinstance(t, str)]
            groups = [t for t in g if not isinstance(t, str)]
            content = groups[0] if groups else None
            inner = list(tags_in(content)) if content else []
            ph = [t for t in inner if "#" in t]
            cond = (len(tags) == 1 and len(groups) <= 1 and "/" not in name and "#" not in name
                    and not any(is_defish(t) for t in inner)
                    and not (not groups and "#" in ext)
                    and ((len(ph) == 1 and ph[0].count("#") == 1 and takes_value_tag(ph[0])) == takes))
            # stricter reading used to pick dictionaries for the expansion oracle: no stray '#', no unique/required
            strict = cond and (len(ph) == (1 if takes else 0)) and not any(bad_prop_tag(t) for t in inner)
            key = name.casefold()
            if cond and key in taken:
                vs.append((name, "dup", cond))
            elif strict:
                taken.add(key)
                defs[key] = (name, takes, content if content else None)
                vs.append((name, "ok", cond))
            elif cond:
                taken.add(key)
                vs.append((name, "gray", cond))
            else:
                vs.append((name, "rejected", cond))
        verdicts.append(vs)
    return defs, verdicts


def plug(tree, value):
    """content with '#' := value in the first tag that has one"""
    done = [False]

    def walk(node):
        out = []
        for t in node:
            if isinstance(t, str):
                if "#" in t and not done[0]:
                    done[0] = True
                    out.append(t.replace("#", value))
                else:
                    out.append(t)
            else:
                out.append(walk(t))
        return out
    return walk(tree)


def split_def(tag, prefix):
    """(name, value) of a Def/… or Def-expand/… tag text, or None"""
    if not low(tag).startswith(prefix + "/"):
        return None
    ext = tag[len(prefix) + 1:]
    name, _, value = ext.partition("/")
    return name, value, ext


def ref_expansion(defs, ext):
    name, _, value = ext.partition("/")
    d = defs.get(name.casefold())
    if d is None or d[1] != bool(value):
        return None
    out = ["Def-expand/" + ext]
    if d[2]:
        out.append(plug(d[2], value) if value else d[2])
    return out


def ref_expand(tree, defs):
    out = []
    for t in tree:
        if isinstance(t, str):
            sd = split_def(t, "def")
            g = ref_expansion(defs, sd[2]) if sd else None
            out.append(g if g is not None else t)
        else:
            out.append(ref_expand(t, defs))
    return out


def ref_shrink(tree, root=True):
    """every outermost parenthesised group holding a Def-expand tag becomes Def/… of its FIRST such tag (a group
    written with several Def-expand tags is not the expansion of anything; the code keeps the first)"""
    out = []
    for t in tree:
        if isinstance(t, str):
            out.append(t)
            continue
        des = [x for x in t if isinstance(x, str) and split_def(x, "def-expand")]
        if des:
            out.append("Def/" + split_def(des[0], "def-expand")[2])
        else:
            out.append(ref_shrink(t, False))
    return out


def two_de_somewhere(tree):
    for t in tree:
        if not isinstance(t, str):
            if len([x for x in t if isinstance(x, str) and split_def(x, "def-expand")]) >= 2 or two_de_somewhere(t):
                return True
    return False


def ref_defexpand_invalid(tree, defs):
    """number of (Def-expand tag, group) pairs whose group differs from the expansion up to sibling order"""
    n = 0
    for t in tree:
        if isinstance(t, str):
            continue
        for x in t:
            sd = split_def(x, "def-expand") if isinstance(x, str) else None
            if sd:
                exp = ref_expansion(defs, sd[2])
                if exp is not None and canon(t) != canon([x] + exp[1:]):
                    n += 1
        n += ref_defexpand_invalid(t, defs)
    return n


def gen_annotation(rng, defs_known, depth=3):
    """annotation tree using the definitions (correctly and incorrectly) at depth <= 3"""
    names = list(defs_known) or ["A"]

    def def_tag(prefix):
        key = rng.choice(names)
        d = defs_known.get(key)
        name = d[0] if d and rng.random() < 0.8 else (key.upper() if rng.random() < 0.5 else key)
        takes = d[1] if d else False
        r = rng.random()
        if r < 0.08:
            name = "Zed"
        give = takes if rng.random() < 0.88 else not takes
        return f"{prefix}/{name}" + (f"/{rng.choice(VALUES)}" if give else "")

    def de_group():
        t = def_tag("Def-expand")
        exp = ref_expansion(defs_known, t.split("/", 1)[1])
        body = [t] + (exp[1:] if exp else [["Red"]])
        r = rng.random()
        if r < 0.45:
            return shuffle(rng, body)
        if r < 0.60:
            return body
        if r < 0.70:
            return [t, ["Green", "Blue"]]
        if r < 0.78:
            return body + [rng.choice(PLAIN)]
        if r < 0.82:
            return [t, def_tag("Def-expand")] + body[1:]
        if r < 0.84:     # two or three Def-expand tags, each followed by a content
            out = list(body)
            for _ in range(rng.randint(1, 2)):
                t2 = def_tag("Def-expand")
                e2 = ref_expansion(defs_known, t2.split("/", 1)[1])
                out += [t2] + (e2[1:] if e2 else [["Blue"]])
            return out if rng.random() < 0.5 else shuffle(rng, out)
        if r < 0.90:
            return [t] + [[def_tag("Def")] + (body[1] if len(body) > 1 else [])]
        return [t]

    def node(d):
        out = []
        for _ in range(rng.randint(1, 3)):
            r = rng.random()
            if d > 0 and r < 0.25:
                out.append(node(d - 1))
            elif r < 0.55:
                out.append(def_tag("Def"))
            elif d > 0 and r < 0.70:
                out.append(de_group())
            elif r < 0.73:
                out.append(def_tag("Def-expand"))
            else:
                out.append(rng.choice(PLAIN))
        return out
    return node(depth - 1)


def shuffle(rng, tree):
    out = [t if isinstance(t, str) else shuffle(rng, t) for t in tree]
    rng.shuffle(out)
    return out


# ----------------------------------------------------------------------------------------- implementation side

class Env:
    def __init__(self):
        from hed import load_schema_version
        install_kind_recorder()
        self.schema = load_schema_version("8.3.0")
        self._tv, self._bp = {}, {}

    def takes_value_tag(self, text):
        base = text.split("/")[0].casefold()
        if base not in self._tv:
            self._tv[base] = self.schema.get_tag_entry(base + "/#") is not None
        return self._tv[base]

    def bad_prop_tag(self, text):
        base = text.split("/")[0].casefold()
        if base not in self._bp:
            e = self.schema.get_tag_entry(base)
            self._bp[base] = bool(e and (e.has_attribute("unique") or e.has_attribute("required")))
        return self._bp[base]

    def tree_json(self, group):
        from hed.models.hed_tag import HedTag
        out = []
        for c in group.children:
            if isinstance(c, HedTag):
                ident = bool(c._schema_entry)
                sb = c.short_base_tag if ident else ""
                b = {"Def": "def", "Def-expand": "de", "Definition": "dfn"}.get(sb, "o")
                out.append({"b": b, "n": sb if ident else str(c), "e": c._extension_value if ident else "",
                            "o": c.org_tag.casefold(), "tv": bool(c.is_takes_value_tag()),
                            "ur": bool(c.has_attribute("unique") or c.has_attribute("required"))})
            else:
                out.append({"g": self.tree_json(c)})
        return out

    def def_tree(self, s):
        from hed import HedString
        return self.tree_json(HedString(s, self.schema))

    def build_dict(self, def_strings):
        """fresh DefinitionDict fed string by string; per string issue kinds; final entries"""
        from hed import HedString
        from hed.models import DefinitionDict
        dd = DefinitionDict()
        kinds = []
        for s in def_strings:
            iss = dd.check_for_definitions(HedString(s, self.schema))
            kinds.append([i["_kind"] for i in iss])
        entries = []
        for k, e in dd.defs.items():
            c = str(e.contents) if e.contents is not None else None
            entries.append([k, e.name, bool(e.takes_value), None if c in (None, "()") else c])
        return dd, kinds, entries


class DoesNotTerminate(Exception):
    """raised by the watchdog: an operation on the implementation ran for seconds (a cyclic tree makes the
    searches of hed_group loop and allocate without bound)"""


class watchdog:
    def __init__(self, seconds):
        self.seconds = seconds

    def __enter__(self):
        import signal

        def fire(signum, frame):
            raise DoesNotTerminate()
        self.old = signal.signal(signal.SIGALRM, fire)
        signal.setitimer(signal.ITIMER_REAL, self.seconds)

    def __exit__(self, *a):
        import signal
        signal.setitimer(signal.ITIMER_REAL, 0)
        signal.signal(signal.SIGALRM, self.old)
        return False


def impl_history(env, dd, hed, ops):
    with watchdog(20):
        return _impl_history(env, dd, hed, ops)


def _impl_history(env, dd, hed, ops):
    """run the operations on ONE object; observables after every step"""
    import signal
    from hed import HedString
    from hed.validator import HedValidator
    obj = HedString(hed, env.schema, dd)
    start = str(obj)
    tree = env.tree_json(obj)
    steps, copies = [], []
    for op in ops:
        st = {}
        try:
            signal.setitimer(signal.ITIMER_REAL, 4)      # per step; the enclosing watchdog restores the handler
            if op == "expand":
                r = obj.expand_defs()
                if r is not obj:
                    st["not_self"] = True
            elif op == "shrink":
                r = obj.shrink_defs()
                if r is not obj:
                    st["not_self"] = True
            elif op == "copy":
                copies.append((obj, str(obj)))
                obj = obj.copy()
            elif op == "validate":
                st["codes"] = sorted({i["code"] for i in obj.validate()})
                v = HedValidator(env.schema, dd)
                st["v"] = [i["_kind"] for i in v._def_validator.validate_def_tags(obj, v)]
            elif op == "sorted":
                st["sorted"] = str(obj.sorted())
            st["s"] = str(obj)
        except Exception as e:        # noqa
            st = {"err": type(e).__name__}
        steps.append(st)
        if "err" in st:
            break
    signal.setitimer(signal.ITIMER_REAL, 4)
    aliasing = []
    if not (steps and "err" in steps[-1]):
        for old, text in copies:
            try:
                now = str(old)
            except Exception as e:    # noqa
                now = type(e).__name__
            if now != text:
                aliasing.append([text, now])
    return start, tree, steps, aliasing


def check_accept(ctx, env, def_strings, model):
    case = {"accept": def_strings}
    try:
        dd, kinds, entries = env.build_dict(def_strings)
    except Exception as e:    # noqa
        ctx.violation("definition-gathering-raised", case, f"{type(e).__name__}: {e}")
        return
    refd, verdicts = ref_accept(def_strings, env.takes_value_tag, env.bad_prop_tag)
    nv = sum(len(v) for v in verdicts)
    ctx.case(("a", tuple(def_strings)), nontrivial=nv >= 1, sample=case if nv >= 2 else None)
    for ks in kinds:
        for k in ks:
            ctx.count("accept-issue:" + k)
    m_issues = [sorted(x) for x in model["issues"]]
    i_issues = [sorted(x) for x in kinds]
    if m_issues != i_issues or sorted(map(json.dumps, model["defs"])) != sorted(map(json.dumps, entries)):
        ctx.disagree("Defs.acceptString = DefinitionDict.check_for_definitions", case,
                     {"issues": m_issues, "defs": model["defs"]}, {"issues": i_issues, "defs": entries})
    # oracle: accepted only if the conditions hold; a duplicate is reported and ignored (first kept)
    seen = {}
    for s, vs, ks in zip(def_strings, verdicts, kinds):
        for name, verdict, cond in vs:
            key = name.casefold()
            if verdict == "dup":
                if "duplicateDefinition" not in ks:
                    ctx.violation("duplicate-definition-not-reported", case, {"name": name, "kinds": ks})
            elif verdict == "ok":
                seen.setdefault(key, name)
    for key, name, takes, content in entries:
        conds = [c for vs in verdicts for (n, v, c) in vs if n.casefold() == key and c]
        if not conds:
            ctx.violation("accepted-definition-breaks-a-condition", case, {"name": name, "content": content})
    for key, (name, takes, content) in refd.items():
        got = next((e for e in entries if e[0] == key), None)
        if got is None:
            ctx.violation("acceptable-definition-not-kept", case, {"name": name})
        else:
            want = None if not content else canon([content])
            have = None if got[3] is None else canon(parse(got[3]))
            if got[1] != name or got[2] != takes or want != have:
                ctx.violation("duplicate-overwrote-first-or-content-changed", case,
                              {"name": name, "stored": got, "first_definition_content": render(content or [])})


def check_history(ctx, env, def_strings, hed, ops, model=None):
    case = {"defs": def_strings, "hed": hed, "ops": ops}
    try:
        dd, _, entries = env.build_dict(def_strings)
        start, tree, steps, aliasing = impl_history(env, dd, hed, ops)
    except Exception as e:    # noqa
        ctx.violation("history-setup-raised", case, f"{type(e).__name__}: {e}")
        return
    if model is None:
        model = ctx.model.batch([{"op": "c09.run", "defs": [env.def_tree(s) for s in def_strings], "kids": tree,
                                  "ops": ops}])[0]
    refd, verdicts = ref_accept(def_strings, env.takes_value_tag, env.bad_prop_tag)
    clean = sorted(refd) == sorted(e[0] for e in entries) and not any(v == "gray" for vs in verdicts for _, v, _ in vs)
    t0 = parse(start)
    uses = sum(1 for t in tags_in(t0) if split_def(t, "def") or split_def(t, "def-expand"))
    ctx.case(("h", tuple(def_strings), hed, tuple(ops)), nontrivial=uses >= 1 and len(ops) >= 2,
             sample=case if uses >= 2 and len(ops) >= 4 else None)
    ctx.count("history-len-%d" % len(ops))
    if not clean:
        ctx.count("history-with-gray-dictionary")
    # ---- model = implementation, step by step
    msteps = model["steps"]
    isteps = [{k: v for k, v in st.items() if k in ("s", "err", "v", "sorted")} for st in steps]
    if model["start"] != start or msteps != isteps:
        ctx.disagree("Defs.runG = expand_defs/shrink_defs/copy/validate/str on one HedString", case,
                     {"start": model["start"], "steps": msteps}, {"start": start, "steps": isteps})
    # ---- oracle: the history is the composition of the two rewrites and never raises
    if two_de_somewhere(t0):
        ctx.count("history-with-group-of-several-def-expand-tags")
    state = t0
    for k, (op, st) in enumerate(zip(ops, steps)):
        if "err" in st:
            ctx.violation("history-step-raised", case, {"step": k, "op": op, "error": st["err"]})
            return
        if st.get("not_self"):
            ctx.violation("operation-did-not-return-self", case, {"step": k, "op": op})
        if not clean:
            continue
        if op == "expand":
            state = ref_expand(state, refd)
            ctx.count("oracle-expand")
        elif op == "shrink":
            state = ref_shrink(state)
            ctx.count("oracle-shrink")
        got = parse(st["s"])
        if canon(got) != canon(state):
            clause = {"expand": "expand-replaces-exactly-the-defined-defs", "shrink": "shrink-restores-def-tags"}.get(
                op, "observer-changed-the-object")
            ctx.violation(clause, case, {"step": k, "op": op, "got": st["s"], "expected": render(state)})
            return
        if op == "expand" and k > 0 and ops[k - 1] == "expand" and st["s"] != steps[k - 1]["s"]:
            ctx.violation("expand-twice-differs-from-once", case, {"step": k, "got": st["s"], "once": steps[k - 1]["s"]})
        if op == "shrink" and k > 0 and ops[k - 1] == "expand" and k - 1 == 0 and \
                not any(split_def(t, "def-expand") for t in tags_in(t0)) and st["s"] != start:
            ctx.violation("shrink-after-expand-differs-from-original", case, {"got": st["s"], "original": start})
        if op == "validate":
            want = ref_defexpand_invalid(got, refd)
            have = st["v"].count("HED_DEF_EXPAND_INVALID")
            ctx.count("oracle-defexpand-groups-checked")
            if want != have:
                # fewer expected than reported: a group equal to the expansion up to sibling order (the one
                # expand_defs() produces, or a sibling permutation of it) is rejected; more: a different one accepted
                clause = ("validation-accepts-own-expansion-and-every-sibling-permutation-of-it" if have > want
                          else "validation-rejects-def-expand-group-that-differs-from-expansion")
                ctx.count("oracle-" + clause)
                ctx.violation(clause, case,
                              {"step": k, "string": st["s"], "invalid_expected": want, "invalid_reported": have,
                               "codes": st.get("codes")})
                return
    if aliasing:
        ctx.violation("copy-shares-state-with-original", case, aliasing[:2])


def check_frames(ctx, env, def_strings, cells):
    """df_util.expand_defs / shrink_defs on a Series and on a DataFrame against the cell-wise string functions"""
    import pandas as pd
    from hed import HedString
    from hed.models import df_util
    case = {"defs": def_strings, "cells": cells}
    dd, _, _ = env.build_dict(def_strings)

    def exp(c):
        return str(HedString(c, env.schema, dd).expand_defs()) if "def/" in c.casefold() else c

    def shr(c):
        return str(HedString(c, env.schema).shrink_defs()) if "def-expand/" in c.casefold() else c
    ctx.case(("f", tuple(def_strings), tuple(cells)), nontrivial=any("Def" in c for c in cells))
    try:
      with watchdog(20):
        # shrink is applied to the expanded cells and to the cells as written (Def-expand in any spelling)
        expanded = [exp(c) for c in cells] + [c for c in cells if "def-expand/" in c.casefold()]
        for what, fn, want_fn, src in (("expand", lambda d, **k: df_util.expand_defs(d, env.schema, dd, **k), exp, cells),
                                       ("shrink", lambda d, **k: df_util.shrink_defs(d, env.schema, **k), shr, expanded)):
            want = [want_fn(c) for c in src]
            ser = pd.Series(list(src))
            fn(ser)
            if list(ser) != want:
                ctx.violation(f"series-{what}-differs-from-cellwise", case, {"got": list(ser), "expected": want})
            df = pd.DataFrame({"HED": list(src), "other": list(src), "third": list(reversed(src))})
            fn(df, columns=["HED", "third"])
            if list(df["HED"]) != want or list(df["third"]) != list(reversed(want)) or list(df["other"]) != list(src):
                ctx.violation(f"dataframe-{what}-differs-from-cellwise", case,
                              {"got": df.to_dict("list"), "expected": want})
            df2 = pd.DataFrame({"HED": list(src)})
            fn(df2)
            if list(df2["HED"]) != want:
                ctx.violation(f"dataframe-{what}-differs-from-cellwise", case,
                              {"got": list(df2["HED"]), "expected": want, "columns": None})
            ctx.count(f"frames-{what}")
    except Exception as e:    # noqa
        ctx.violation("frame-operation-raised", case, f"{type(e).__name__}: {e}")


# HED tags are case-insensitive and may be written in long or partial-path form: the Def / Def-expand NAME part in
# every spelling; cells where ALL such tags are non-canonical, mixed cells, cells with none.
FRAME_SPELLINGS = [
    "def/A", "DEF/Spd/3", "dEf/a, Red", "Def/B", "(def/Lab/x7, Blue), DEF/E",
    "property/organizational-property/def/A", "Property/Organizational-property/Def/B", "organizational-property/DEF/B",
    "Organizational-property/def/Spd/4.5, (Item, deF/Nest)",
    "def/A, Def/B", "(DEF/Acc/3, Circle), (Def/Em)", "Red, (Blue, Green)", "Label/def, Item",
    "(def-expand/A, (Blue, Red))", "(DEF-EXPAND/Spd/3, (Speed/3 mph))", "(Def-Expand/B, (Green)), Red",
    "(Def-expand/B, (Green))", "(property/organizational-property/def-expand/A, (Blue, Red)), Square",
    "(Organizational-property/DEF-expand/Lab/x7, (Label/x7, Red))",
    "(def-expand/A, (Blue, Red)), (Def-expand/B, (Green))", "(def-Expand/E), def/A", "(DEF-EXPAND/Zed, (Red))",
]


def check_gather(ctx, env, def_strings, cells):
    """process_def_expands on expanded strings: with the dictionary known nothing is an error; without it the
    value-free definitions are recovered with the same content (up to sibling order)"""
    from hed import HedString
    from hed.models import df_util, DefinitionDict
    case = {"gather": def_strings, "cells": cells}
    refd, _ = ref_accept(def_strings, env.takes_value_tag, env.bad_prop_tag)
    dd, _, entries = env.build_dict(def_strings)
    if sorted(refd) != sorted(e[0] for e in entries):
        return
    try:
        expanded = [str(HedString(c, env.schema, dd).expand_defs()) for c in cells]
        _, amb, errs = df_util.process_def_expands(expanded, env.schema, known_defs=DefinitionDict(def_strings, env.schema))
        if errs:
            ctx.violation("gather-reports-error-on-own-expansion", case, {k: [str(g) for g in v] for k, v in errs.items()})
        got, _, errs2 = df_util.process_def_expands(expanded, env.schema)
        ctx.case(("g", tuple(def_strings), tuple(cells)), nontrivial=any("Def-expand" in c for c in expanded))
        for key, e in got.defs.items():
            r = refd.get(key)
            if r is None:
                ctx.violation("gather-invents-definition", case, {"name": key})
            elif not r[1] and not e.takes_value and r[2] and canon(parse(str(e.contents))) != canon([r[2]]):
                ctx.violation("gathered-definition-differs", case, {"name": key, "got": str(e.contents)})
        ctx.count("gather")
    except Exception as e:    # noqa
        ctx.violation("gather-raised", case, f"{type(e).__name__}: {e}")


# ---- dictionaries built separately and merged through the dict path: the first definition of a name wins

MERGE_VARIANTS = {   # per name: definitions that differ in content, case of the name, takes-value flag
    "A": ["(Definition/A, (Red, Blue))", "(Definition/a, (Green))", "(Definition/A/#, (Label/#, Square))",
          "(Definition/A, (Item, (Circle)))"],
    "B": ["(Definition/B, (Green))", "(Definition/B/#, (Speed/# mph))", "(Definition/b, (Blue, Red))"],
    "Spd": ["(Definition/Spd/#, (Speed/# mph))", "(Definition/SPD/#, (Label/#))", "(Definition/Spd, (Red))"],
    "E": ["(Definition/E)", "(Definition/e, (Square))"],
}


def gen_merge(rng):
    """two or three dictionaries (lists of definition strings), each without internal clash, clashing with each other"""
    n = rng.choice([2, 2, 3])
    dicts = []
    for _ in range(n):
        names = rng.sample(list(MERGE_VARIANTS), rng.randint(1, 4))
        dicts.append([rng.choice(MERGE_VARIANTS[nm]) for nm in names])
    return dicts


def check_merge(ctx, env, dicts, model):
    from hed import HedString
    from hed.models import DefinitionDict
    from hed.validator import HedValidator
    from hed.validator.def_validator import DefValidator
    case = {"merge": dicts}
    # reference: every dictionary on its own (string rules), then first wins, one report per clash
    merged, clashes = {}, 0
    for d in dicts:
        refd, _ = ref_accept(d, env.takes_value_tag, env.bad_prop_tag)
        for k, v in refd.items():
            if k in merged:
                clashes += 1
            else:
                merged[k] = v
    ctx.case(("m", json.dumps(dicts)), nontrivial=clashes >= 1, sample=case if clashes >= 2 else None)
    ctx.count("merge-clashes", clashes)

    def entries(dd):
        return [[k, e.name, bool(e.takes_value), None if e.contents is None or str(e.contents) == "()" else str(e.contents)]
                for k, e in dd.defs.items()]
    try:
        with watchdog(30):
            built = [DefinitionDict(list(d), env.schema) for d in dicts]
            m1 = DefinitionDict(list(built))
            m2 = DefValidator(list(built))
            m3 = DefinitionDict()
            m3.add_definitions(built[0])
            m3.add_definitions(dict(built[1].defs))
            if len(built) > 2:
                m3.add_definitions(built[2:])
            m4 = HedValidator(env.schema, def_dicts=list(built))._def_validator
            routes = {"DefinitionDict([...])": m1, "DefValidator([...])": m2, "add_definitions(dict)": m3,
                      "HedValidator(def_dicts=[...])": m4}
            for route, m in routes.items():
                got = entries(m)
                if model is not None and route == "DefinitionDict([...])" and \
                        (model["defs"] != got or model["issues"] != len(m.issues)):
                    ctx.disagree("Defs.mergeDicts = DefinitionDict([d1, d2, ...])", case, model,
                                 {"defs": got, "issues": len(m.issues)})
                if len(m.issues) != clashes:
                    ctx.violation("duplicate-across-dictionaries-reported-once-per-clash", case,
                                  {"route": route, "reported": len(m.issues), "clashes": clashes})
                for k, name, takes, content in got:
                    want = merged.get(k)
                    if want is None or want[0] != name or want[1] != takes or \
                            (None if not want[2] else canon([want[2]])) != (None if content is None else canon(parse(content))):
                        ctx.violation("merged-dictionary-keeps-the-first-definition", case,
                                      {"route": route, "name": k, "stored": [name, takes, content],
                                       "first": None if want is None else [want[0], want[1], render(want[2] or [])]})
                if sorted(merged) != sorted(g[0] for g in got):
                    ctx.violation("merged-dictionary-keeps-the-first-definition", case,
                                  {"route": route, "names": sorted(g[0] for g in got), "expected": sorted(merged)})
                # expansion and Def-expand validation use the first definition
                for k, (name, takes, content) in merged.items():
                    use = f"Def/{name}" + ("/3" if takes else "")
                    hs = HedString(f"({use}, Item)", env.schema, m)
                    out = str(hs.expand_defs())
                    want_tree = ref_expand(parse(f"({use}, Item)"), merged)
                    if canon(parse(out)) != canon(want_tree):
                        ctx.violation("expansion-after-merge-uses-the-first-definition", case,
                                      {"route": route, "hed": use, "got": out, "expected": render(want_tree)})
                    written = render(ref_expand(parse(use), merged))
                    v = HedValidator(env.schema, def_dicts=list(built)) if route.startswith("HedValidator") else \
                        HedValidator(env.schema, def_dicts=m)
                    kinds = [i["_kind"] for i in v._def_validator.validate_def_tags(HedString(written, env.schema, m), v)]
                    if kinds:
                        ctx.violation("def-expand-of-the-first-definition-accepted-after-merge", case,
                                      {"route": route, "hed": written, "kinds": kinds})
                    ctx.count("merge-uses-checked")
    except Exception as e:    # noqa
        ctx.violation("dictionary-merge-raised", case, f"{type(e).__name__}: {e}")


# ---- gathering (value-free definitions): DefExpandGatherer against `Defs.gatherAll`, and its own reference

GATHER_KNOWN = ["(Definition/A, (Red, Blue))", "(Definition/B, (Green))",
                "(Definition/Nest, (Item, (Red, (Blue, Green)), (Circle)))", "(Definition/E)"]
GATHER_CONTENTS = [["Red", "Blue"], ["Blue", "Red"], ["Green"], ["Item", ["Red", ["Blue", "Green"]], ["Circle"]],
                   ["Square"], ["Square", ["Circle", "Label/x1"]], [["Circle", "Label/x1"], "Square"], ["red", "BLUE"]]


def gen_gather_cells(rng):
    cells = []
    for _ in range(rng.randint(1, 5)):
        parts = []
        for _ in range(rng.randint(1, 3)):
            name = rng.choice(["A", "a", "B", "Nest", "N1", "N2", "n1", "N3"]) if rng.random() < 0.97 else "E"
            body = [f"Def-expand/{name}"]
            r = rng.random()
            if r < 0.98:
                body.append(list(rng.choice(GATHER_CONTENTS)))
            if r < 0.1:
                body.append("Item")
            if rng.random() < 0.5:
                body = shuffle(rng, body)
            parts.append(body if rng.random() < 0.75 else ["Green", body])
            if rng.random() < 0.3:
                parts.append(rng.choice(PLAIN))
        cells.append(render(parts, rng))
    return cells


def fold_canon(tree):
    return tuple(sorted((("t", t.casefold()) if isinstance(t, str) else ("g", fold_canon(t))) for t in tree))


def ref_gather(known, cells):
    """value-free gathering on strings: first content seen defines a name, a different one is an error"""
    defs = {k: v[2] for k, v in known.items()}
    errors = {}

    def pairs(node):
        for t in node:
            if not isinstance(t, str):
                for x in t:
                    if isinstance(x, str) and split_def(x, "def-expand"):
                        yield x, t
        for t in node:
            if not isinstance(t, str):
                yield from pairs(t)
    for c in cells:
        for x, grp in pairs(parse(c)):
            key = split_def(x, "def-expand")[0].casefold()
            subs = [k for k in grp if not isinstance(k, str)]
            if key in defs:
                exp = [x] + ([defs[key]] if defs[key] else [])
                if fold_canon(grp) != fold_canon(exp):
                    if not subs:
                        return None
                    errors[key] = errors.get(key, 0) + 1
            else:
                if not subs:
                    return None
                defs[key] = subs[0] if subs[0] else None
    return defs, errors


def check_gather_model(ctx, env, known, cells, model):
    from hed import HedString
    from hed.models import df_util
    case = {"gather_model": known, "cells": cells}
    try:
        dd, amb, errs = df_util.process_def_expands(list(cells), env.schema, known_defs=list(known))
        impl = {"defs": [[k, e.name, bool(e.takes_value),
                          None if e.contents is None or str(e.contents) == "()" else str(e.contents)]
                         for k, e in dd.defs.items()],
                "errors": [[k, [str(g) for g in v]] for k, v in errs.items()], "ambiguous": len(amb)}
    except Exception as e:    # noqa
        impl = {"err": type(e).__name__}
    ctx.case(("gm", tuple(known), tuple(cells)), nontrivial=len(cells) >= 2)
    ctx.count("gather-model" + ("-raised-" + impl["err"] if "err" in impl else ""))
    if "err" not in impl:
        ctx.count("gather-model-errors-reported", sum(len(v) for _, v in impl["errors"]))
        ctx.count("gather-model-definitions-added", max(0, len(impl["defs"]) - len(known)))
    if model != impl:
        ctx.disagree("Defs.gatherAll = process_def_expands (value-free definitions)", case, model, impl)
    refk, _ = ref_accept(known, env.takes_value_tag, env.bad_prop_tag)
    ref = ref_gather(refk, cells)
    if ref is not None and "err" not in impl:
        rdefs, rerrs = ref
        got_errs = {k: len(v) for k, v in impl["errors"]}
        if sorted(rdefs) != sorted(d[0] for d in impl["defs"]) or rerrs != got_errs:
            ctx.violation("gathering-reports-conflicts-and-keeps-first-definition", case,
                          {"expected_names": sorted(rdefs), "expected_errors": rerrs, "got": impl})
        else:
            for k, name, takes, content in impl["defs"]:
                want = None if not rdefs[k] else fold_canon([rdefs[k]])
                have = None if content is None else fold_canon(parse(content))
                if want != have or takes:
                    ctx.violation("gathered-definition-differs-from-first-expansion", case, {"name": k, "got": content})


# --------------------------------------------------------------------------------------------------- driver

BASE_OBJECTS = [
    (GOOD_DEFS, "Def/A"),
    (GOOD_DEFS, "(Def/Spd/3, Item), Red"),
    (GOOD_DEFS, "(Def-expand/A, (Red, Blue)), Def/B"),
    (GOOD_DEFS, "(Item, (Def/Nest, (Def/Lab/x7, Def/E))), Def/Em"),
    (GOOD_DEFS, "(Def-expand/Spd/3, (Speed/3 mph)), (Def/Acc/4.5, Circle)"),
    (GOOD_DEFS, "Def/a, (Def/A/3, Def/Spd, Def/Zed)"),
    (GOOD_DEFS, "((Def-expand/B, (Blue)), Def/M2/77)"),
    (GOOD_DEFS, "(Def-expand/Zed, (Red)), (Def-expand/E)"),
    (GOOD_DEFS, "Def-expand/A, ((Blue, Red), Def-expand/A)"),
    (GOOD_DEFS, "(Def-expand/Nest, (Item, (Circle), ((Green, Blue), Red))), Green"),
    (GOOD_DEFS, "(Def-expand/A, (Blue, Red), Item)"),
    (GOOD_DEFS, "(Def-expand/A, ((Def-expand/B, (Green)), Def/E))"),
    (GOOD_DEFS[:2], "(Def/A, (Def/B, (Def/A))), Def/Spd/3"),
    (GOOD_DEFS, "(Def/Lab/4.5, Def/Lab/77), Def/Lab/3"),
    (GOOD_DEFS, "(Def-expand/Lab/3, (Red, Label/3))"),
    (GOOD_DEFS, "Red, (Blue, (Green))"),
    (GOOD_DEFS + BAD_DEFS, "Def/X12, Def/X9, (Def/X6, Def/a)"),
    ([], "Def/A, (Def-expand/A, (Red))"),
    (GOOD_DEFS, "(Def-expand/A, Def-expand/B, (Red))"),
    (GOOD_DEFS, "(Def/A, Def/B), (Def/A, Def/B, Def/E, (Def/Spd/3, Def/Lab/x))"),
    (GOOD_DEFS, "(Def-expand/A, (Red), Def-expand/B, (Blue)), Green"),
    (GOOD_DEFS, "((Def-expand/B, (Green)), Def-expand/A, (Blue, Red), Def-expand/E), (Def-expand/E, Def-expand/Em, Def-expand/Zed)"),
    (GOOD_DEFS, "(Item, (Def-expand/A, Def-expand/A, (Blue, Red), (Def-expand/B, Def-expand/Spd/3, (Green))))"),
    (GOOD_DEFS, "(Def-expand/Acc/3, (Blue, (Red, Acceleration/3 m-per-s^2))), (Def/Acc/3)"),
]


# Definitions whose placeholder tag (or a sub-group holding it) has siblings that differ from it only in the text at
# the '#' position: the stored content is sorted with '#' in place, so after plugging a value the placeholder may
# belong before or after such a sibling in the canonical (case-folded) order.  Values on both sides of every such
# sibling, equal to it, and differing from it only in case.
PLACEHOLDER_ORDER = [
    ("(Definition/Cue/#, (Label/#, Label/Middle, Sensory-event))", "Cue",
     ["Alpha", "Zulu", "Middle", "middle", "MIDDLE", "Middl", "Middlez", "alpha", "zulu", "0"]),
    ("(Definition/Two/#, (Label/Beta, Label/#, Label/delta, Red))", "Two",
     ["Alpha", "Charlie", "echo", "beta", "BETA", "Delta", "DELTA", "Beta", "delta"]),
    ("(Definition/Sp/#, (Speed/# mph, Speed/5 mph, Red))", "Sp", ["3", "7", "50", "5", "5.0", "05"]),
    ("(Definition/Grp/#, ((Label/#, Red), (Label/Middle, Red), Blue))", "Grp",
     ["Alpha", "Zulu", "middle", "MIDDLE", "Middle", "Middlez"]),
    ("(Definition/Deep/#, (Item, ((ID/#), Circle), ((ID/k5), Circle), ((ID/K7, Red))))", "Deep",
     ["a1", "k4", "k5", "K5", "k6", "K8", "z9"]),
]


def sibling_permutations(tree, cap):
    """all orderings of the siblings at every level (own enumeration), at most `cap` of them, identity first"""
    def perms(node):
        kids = [[k] if isinstance(k, str) else perms(k) for k in node]
        out = []
        for order in itertools.permutations(range(len(node))):
            for combo in itertools.product(*[kids[i] for i in order]):
                out.append(list(combo))
                if len(out) >= 4 * cap:
                    return out
        return out
    allp = perms(tree)
    step = max(1, len(allp) // cap)
    return allp[::step][:cap]


def placeholder_order_work(env, cap):
    """histories for the placeholder-order family: the expansion produced by expand_defs() is validated, shrunk,
    expanded and validated again; every sibling permutation of the expected expansion (built by the harness from
    the definition text) is validated as written"""
    work = []
    for dstr, name, values in PLACEHOLDER_ORDER:
        defs = [dstr, "(Definition/B, (Green))"]
        refd, _ = ref_accept(defs, env.takes_value_tag, env.bad_prop_tag)
        assert name.casefold() in refd
        for v in values:
            for hed in (f"Def/{name}/{v}", f"(Def/{name}/{v}, Green), Def/B"):
                work.append((defs, hed, ["expand", "validate", "shrink", "expand", "validate"]))
            exp = ref_expand(parse(f"Def/{name}/{v}"), refd)
            for pt in sibling_permutations(exp, cap):
                work.append((defs, render(pt), ["validate"]))
                work.append((defs, render([["Blue"] + pt]), ["validate", "shrink", "expand", "validate"]))
    return work


# ---- parent pointers: the model's `copyTag = false` variant against the real objects when `validate` hands the
# live tag to get_definition (a scratch copy of the package with `return_copy_of_tag=True` switched off)
VARIANT_HEDS = ["Def/Spd/3", "(Def-expand/Spd/3, (Speed/3 mph)), Red", "(Def/Spd/3, Blue), Def/A",
                "(Item, (Def/Nest, (Def/Lab/x7, Def/E))), Def/Em", "(Def-expand/A, (Red, Blue)), Def/B, (Def/Zed, Def/A/3)",
                "(Def-expand/A, (Red), Def-expand/B, (Blue)), (Def/A, Def/B)"]


def variant_work(maxlen):
    return [(GOOD_DEFS, hed, list(ops)) for hed in VARIANT_HEDS for n in range(1, maxlen + 1)
            for ops in itertools.product(["expand", "shrink", "validate", "copy"], repeat=n)]


def variant_child():
    """runs in a subprocess whose VERIF_REPO is the scratch copy: observed steps for the variant work list"""
    import sys
    from harness import common
    common.use_repo()
    env = Env()
    out = []
    for defs, hed, ops in variant_work(int(sys.argv[1])):
        dd, _, _ = env.build_dict(defs)
        start, tree, steps, _ = impl_history(env, dd, hed, ops)
        out.append({"tree": tree, "steps": [st.get("s", st.get("err")) for st in steps]})
    json.dump(out, open(sys.argv[2], "w"))


def check_variant(ctx, env, maxlen):
    import os
    import shutil
    import subprocess
    import sys
    import tempfile
    from harness import common
    d = tempfile.mkdtemp(prefix="hedverif_c09_")
    try:
        shutil.copytree(common.REPO / "hed", os.path.join(d, "hed"), ignore=shutil.ignore_patterns("__pycache__"))
        f = os.path.join(d, "hed", "validator", "def_validator.py")
        src = open(f, newline="").read()
        if src.count("return_copy_of_tag=True") != 2:
            ctx.obligation("variant:def_validator passes a copy of the tag twice", False, "source changed")
            return
        open(f, "w", newline="").write(src.replace("return_copy_of_tag=True", "return_copy_of_tag=False"))
        outp = os.path.join(d, "out.json")
        p = subprocess.run([sys.executable, "-c", "from harness.props import c09; c09.variant_child()", str(maxlen), outp],
                           cwd=str(common.ROOT), env=dict(os.environ, VERIF_REPO=d, PYTHONWARNINGS="ignore"),
                           capture_output=True, text=True, timeout=600)
        if p.returncode != 0:
            ctx.obligation("variant:child run", False, p.stderr[-800:])
            return
        got = json.load(open(outp))
    finally:
        shutil.rmtree(d, ignore_errors=True)
    work = variant_work(maxlen)
    defs_json = [env.def_tree(s) for s in GOOD_DEFS]
    ans = ctx.model.batch([{"op": "c09.run", "defs": defs_json, "kids": g["tree"], "ops": ops, "copytag": False}
                           for (_, _, ops), g in zip(work, got)])
    changed = 0
    for (defs, hed, ops), g, a in zip(work, got, ans):
        m = [st.get("s", st.get("err")) for st in a["steps"]]
        ctx.case(("v", hed, tuple(ops)), nontrivial="validate" in ops and len(ops) >= 2)
        ctx.count("variant-histories")
        if m != g["steps"]:
            ctx.disagree("Defs.runG with copyTag=false = real objects when validate does not copy the tag",
                         {"variant": True, "hed": hed, "ops": ops}, m, g["steps"])
    ctx.extra["variant_histories"] = len(work)


def histories(ctx, env, work):
    """work: list of (def_strings, hed, ops); one model batch per chunk"""
    from hed import HedString
    for lo in range(0, len(work), 1500):
        chunk = work[lo:lo + 1500]
        reqs = []
        for defs, hed, ops in chunk:
            try:
                dd = env.build_dict(defs)[0]
                tree = env.tree_json(HedString(hed, env.schema, dd))
            except Exception:    # noqa
                tree = []
            reqs.append({"op": "c09.run", "defs": [env.def_tree(s) for s in defs], "kids": tree, "ops": ops})
        ans = ctx.model.batch(reqs)
        for (defs, hed, ops), a in zip(chunk, ans):
            check_history(ctx, env, defs, hed, ops, a)
        ctx.check_time()


def run(ctx):
    env = Env()
    rng = ctx.rng
    quick = ctx.quick()
    ctx.extra["rule"] = ("definition sets (0-4; with/without '#'; nested; unit-carrying placeholder; every acceptance-rule "
                         "violation) x annotations using them at depth <= 3 (correct, permuted, wrong and unknown "
                         "Def/Def-expand) x operation sequences on one HedString: exhaustive short ones on fixed base "
                         "objects, random up to length 6; non-trivial = at least one Def/Def-expand use and two operations "
                         "(acceptance: at least one definition group)")
    # (a) acceptance
    sets = [GOOD_DEFS, BAD_DEFS, GOOD_DEFS + BAD_DEFS, BAD_DEFS + GOOD_DEFS, []] + [[d] for d in GOOD_DEFS + BAD_DEFS]
    for _ in range(600 if quick else 6000):
        sets.append(gen_defset(rng))
    ans = ctx.model.batch([{"op": "c09.accept", "strings": [env.def_tree(s) for s in ds]} for ds in sets])
    for ds, a in zip(sets, ans):
        check_accept(ctx, env, ds, a)
    ctx.check_time()
    # (b) histories: exhaustive short sequences on the base objects
    nbase, maxlen = (6, 3) if quick else (len(BASE_OBJECTS), 4)
    work = []
    for defs, hed in BASE_OBJECTS[:nbase]:
        for n in range(1, maxlen + 1):
            for ops in itertools.product(OPS, repeat=n):
                work.append((defs, hed, list(ops)))
    for defs, hed in BASE_OBJECTS[nbase:]:
        for ops in (["expand", "expand", "str"], ["expand", "shrink", "expand"], ["shrink", "expand", "validate"],
                    ["validate", "expand", "validate", "shrink", "validate"], ["copy", "expand", "copy", "shrink"],
                    ["shrink", "shrink", "str"], ["expand", "shrink", "shrink", "expand", "shrink"],
                    ["shrink", "validate", "expand", "expand"]):
            work.append((defs, hed, ops))
    ctx.extra["exhaustive"] = {"base_objects": nbase, "max_len": maxlen, "sequences": len(work)}
    # random definition sets x annotations x sequences
    nrand = 2500 if quick else 30000
    for _ in range(nrand):
        defs = gen_defset(rng)
        refd, _ = ref_accept(defs, env.takes_value_tag, env.bad_prop_tag)
        hed = render(gen_annotation(rng, refd), rng)
        n = rng.choice([1, 2, 3, 4, 5, 6, 6])
        ops = [rng.choice(["expand", "expand", "shrink", "shrink", "copy", "validate", "str", "sorted"]) for _ in range(n)]
        work.append((defs, hed, ops))
    pow_ = placeholder_order_work(env, 12 if quick else 48)
    ctx.extra["placeholder_order_family"] = {"definitions": len(PLACEHOLDER_ORDER), "histories": len(pow_)}
    work += pow_
    histories(ctx, env, work)
    check_variant(ctx, env, 3 if quick else 4)
    ctx.check_time()
    gwork = [(GATHER_KNOWN if rng.random() < 0.6 else rng.sample(GATHER_KNOWN, 2), gen_gather_cells(rng))
             for _ in range(250 if quick else 4000)]
    gwork.append(([], ["(Def-expand/N1, (Red))", "(Def-expand/n1, (Red))", "(Def-expand/N1, (Blue))"]))
    gans = ctx.model.batch([{"op": "c09.gather", "defs": [env.def_tree(s) for s in k],
                             "cells": [env.def_tree(c) for c in cells]} for k, cells in gwork])
    for (k, cells), a in zip(gwork, gans):
        with watchdog(30):
            check_gather_model(ctx, env, k, cells, a)
    ctx.check_time()
    # dictionaries merged through the dict path (fixed clashes first, then generated); the model runs the
    # expansion with the merged dictionary as well
    mwork = [[["(Definition/A, (Red, Blue))"], ["(Definition/a, (Green))"]],
             [["(Definition/Spd/#, (Speed/# mph))", "(Definition/B, (Green))"], ["(Definition/B/#, (Label/#))", "(Definition/Spd, (Red))"]],
             [["(Definition/A, (Red, Blue))"], ["(Definition/B, (Green))"], ["(Definition/A/#, (Label/#))", "(Definition/b, (Blue))"]]]
    mwork += [gen_merge(rng) for _ in range(60 if quick else 600)]
    mans = ctx.model.batch([{"op": "c09.merge", "dicts": [[env.def_tree(s) for s in d] for d in ds]} for ds in mwork])
    for ds, a in zip(mwork, mans):
        check_merge(ctx, env, ds, a)
    runs = []
    for ds in mwork[:40]:
        hed = "Def/A, (Def/a/3, Def/B), (Def/B/3, Def/Spd/3, Def/Spd), Def/E"
        from hed import HedString
        from hed.models import DefinitionDict
        m = DefinitionDict([DefinitionDict(list(d), env.schema) for d in ds])
        hs = HedString(hed, env.schema, m)
        tree = env.tree_json(hs)
        runs.append((ds, tree, str(hs.expand_defs())))
    rans = ctx.model.batch([{"op": "c09.run", "dicts": [[env.def_tree(s) for s in d] for d in ds], "defs": [],
                             "kids": tree, "ops": ["expand"]} for ds, tree, _ in runs])
    for (ds, tree, out), a in zip(runs, rans):
        if a["steps"] != [{"s": out}]:
            ctx.disagree("Defs.runG with mergeDicts = expand_defs with DefinitionDict([d1, d2, ...])", {"merge": ds}, a["steps"], out)
    ctx.check_time()
    # (c) frames: every spelling of the Def / Def-expand name, alone, all together, and in random subsets;
    # the same cells as one-object histories tie the string level to the model
    for c in FRAME_SPELLINGS:
        check_frames(ctx, env, GOOD_DEFS[:5], [c, "Red, Blue"])      # smallest witnesses first
    check_frames(ctx, env, GOOD_DEFS, FRAME_SPELLINGS)
    for _ in range(10 if quick else 100):
        check_frames(ctx, env, GOOD_DEFS, rng.sample(FRAME_SPELLINGS, rng.randint(2, 6)))
    histories(ctx, env, [(GOOD_DEFS, c, ops) for c in FRAME_SPELLINGS
                         for ops in (["expand"], ["shrink"], ["expand", "shrink", "expand"], ["shrink", "expand", "validate"])])
    ctx.extra["frame_spellings"] = len(FRAME_SPELLINGS)
    # (c) frames on generated cells, (d) gathering
    for _ in range(40 if quick else 400):
        defs = gen_defset(rng) if rng.random() < 0.5 else GOOD_DEFS
        refd, _ = ref_accept(defs, env.takes_value_tag, env.bad_prop_tag)
        cells = [render(gen_annotation(rng, refd, depth=2), rng) for _ in range(rng.randint(1, 5))]
        if rng.random() < 0.5 or not cells:
            cells.append("Red, Blue")      # (an empty Series has no string dtype: not generated)
        check_frames(ctx, env, defs, cells)
        # Def-expand groups without content make process_def_expands raise IndexError (get_first_group): outside
        # the property's statement, so only definitions with content are gathered
        empty = [d[0].casefold() for d in refd.values() if not d[2]]
        plain = [c for c in cells if "Def-expand" not in c and "Zed" not in c and
                 not any(split_def(t, "def") and split_def(t, "def")[0].casefold() in empty for t in tags_in(parse(c)))]
        if plain:
            with watchdog(30):
                check_gather(ctx, env, defs, plain)
        ctx.check_time()


def replay(ctx, rec):
    env = Env()
    case = rec.get("case") or (rec.get("disagreements") or [{}])[0].get("case")
    if not case:
        print("nothing to replay (obligation-only record):", rec.get("broken_obligations"))
        return
    if "merge" in case:
        a = ctx.model.batch([{"op": "c09.merge", "dicts": [[env.def_tree(s) for s in d] for d in case["merge"]]}])[0]
        check_merge(ctx, env, case["merge"], a)
    elif "accept" in case:
        a = ctx.model.batch([{"op": "c09.accept", "strings": [env.def_tree(s) for s in case["accept"]]}])[0]
        check_accept(ctx, env, case["accept"], a)
    elif "hed" in case:
        check_history(ctx, env, case["defs"], case["hed"], case["ops"])
    elif "gather_model" in case:
        a = ctx.model.batch([{"op": "c09.gather", "defs": [env.def_tree(s) for s in case["gather_model"]],
                              "cells": [env.def_tree(c) for c in case["cells"]]}])[0]
        check_gather_model(ctx, env, case["gather_model"], case["cells"], a)
    elif "gather" in case:
        check_gather(ctx, env, case["gather"], case["cells"])
    else:
        check_frames(ctx, env, case["defs"], case["cells"])
    print("replayed", json.dumps(case)[:300])
