"""Independent reading of the bundled schema XML files (ElementTree only; never imports hed).
This is the 'independent XML reader' several properties ask for, and the source of the vocabularies
installed into the Lean model (DESIGN.md section 4)."""
import xml.etree.ElementTree as ET
from pathlib import Path

from .common import REPO


def schema_dir():
    return REPO / "hed" / "schema" / "schema_data"


def bundled():
    """name -> path, e.g. '8.3.0', 'score_2.0.0'"""
    out = {}
    for p in sorted(schema_dir().glob("HED*.xml")):
        n = p.stem[3:]
        out[n.lstrip("_")] = p
    return out


def _attrs(elem):
    out = {}
    for a in elem.findall("attribute"):
        name = a.findtext("name")
        vals = [v.text or "" for v in a.findall("value")]
        out.setdefault(name, []).extend(vals if vals else [True])
    return out


def _entry(elem):
    return {"name": elem.findtext("name"), "attrs": _attrs(elem), "desc": elem.findtext("description")}


def read(path):
    """Parse one XML schema file into plain data."""
    root = ET.parse(path).getroot()
    tags = []

    def walk(node, prefix):
        name = node.findtext("name")
        long = prefix + [name]
        tags.append({"long": "/".join(long), "attrs": _attrs(node), "desc": node.findtext("description")})
        for ch in node.findall("node"):
            walk(ch, long)
    for top in root.find("schema").findall("node"):
        walk(top, [])
    unit_classes = []
    ucd = root.find("unitClassDefinitions")
    if ucd is not None:
        for uc in ucd.findall("unitClassDefinition"):
            e = _entry(uc)
            e["units"] = [_entry(u) for u in uc.findall("unit")]
            unit_classes.append(e)

    def section(tag, item):
        sec = root.find(tag)
        return [] if sec is None else [_entry(x) for x in sec.findall(item)]
    return {
        "header": dict(root.attrib),
        "prologue": root.findtext("prologue") or "",
        "epilogue": root.findtext("epilogue") or "",
        "tags": tags,
        "unit_classes": unit_classes,
        "unit_modifiers": section("unitModifierDefinitions", "unitModifierDefinition"),
        "value_classes": section("valueClassDefinitions", "valueClassDefinition"),
        "attributes": section("schemaAttributeDefinitions", "schemaAttributeDefinition"),
        "properties": section("propertyDefinitions", "propertyDefinition"),
    }
