"""Source -> Lean data.  Declarative tables of /repo are re-emitted as Lean definitions on every run
(DESIGN.md section 4); files are rewritten only when their content changes, so an unchanged /repo
costs a no-op build.  Nothing here imports `hed`: sources are read with `ast` / `json` / ElementTree."""
import ast
import json
from pathlib import Path

from .common import LEAN, REPO

GEN = LEAN / "HedVerif" / "Generated"

EXTRACTORS = []


def extractor(fn):
    EXTRACTORS.append(fn)
    return fn


def lean_str(s):
    out = []
    for ch in s:
        o = ord(ch)
        if ch == '"':
            out.append('\\"')
        elif ch == "\\":
            out.append("\\\\")
        elif ch == "\n":
            out.append("\\n")
        elif ch == "\t":
            out.append("\\t")
        elif 32 <= o < 127:
            out.append(ch)
        else:
            out.append("\\u{%x}" % o)
    return '"' + "".join(out) + '"'


def write_if_changed(path, text):
    path.parent.mkdir(parents=True, exist_ok=True)
    if not path.exists() or path.read_text() != text:
        path.write_text(text)


def module_assigns(relpath):
    """name -> ast node of every simple module- or class-level assignment in a source file."""
    tree = ast.parse((REPO / relpath).read_text())
    out = {}
    for node in ast.walk(tree):
        if isinstance(node, ast.Assign) and len(node.targets) == 1 and isinstance(node.targets[0], ast.Name):
            out.setdefault(node.targets[0].id, node.value)
    return out


def regenerate():
    """Run all extractors. Returns [(table, ok, detail)]."""
    res = []
    for fn in EXTRACTORS:
        try:
            fn()
            res.append((fn.__name__, True, ""))
        except Exception as e:  # a broken tie, handled like a broken correspondence
            res.append((fn.__name__, False, f"{type(e).__name__}: {e}"))
    return res
